"""C06 - no client input can crash or exhaust the server.
Whole-app fuzzing through the sim harness (bytes injected on every client->server channel by an authorized or an
unauthorized client), judged by: no panic, no oversized allocation, decode verdicts equal to the Coq byte-level
models (Wire.AckCodec / TriggerCodec / EntityCodec via HarnessPayload), and isolation: everything concerning the
world and the other client is exactly what the Layer 1 model predicts for a run in which the attacker sent nothing."""
import random
import sys
from common import *
import simlib
import simoracle
import simcheck

sys.path.insert(0, os.path.join(VERIF, "gen"))
import scripts as gen_scripts

CH_NAMES = {1: "CE0", 2: "CEM", 3: "CT"}


def hexb(bs):
    return "".join("%02x" % b for b in bs) or "-"


def varint(v):
    out = []
    while True:
        b = v & 0x7f
        v >>= 7
        if v:
            out.append(b | 0x80)
        else:
            out.append(b)
            return out


def interesting_bytes(rng):
    """structure-aware stream: valid messages and boundary mutations of them"""
    lens = [0, 1, 2, 0x7f, 0x80, 0xff, 0x3fff, 0x4000, 2**31 - 1, 2**32 - 1, 2**32, 2**63, 2**64 - 1]
    ents = [[0x02], [0x03, 0x00], [0x03, 0x05], [0x01, 0xff, 0xff, 0xff, 0xff, 0x0f], [0xff] * 9 + [0x01], [0xfe] + [0xff] * 8 + [0x01], [0x80, 0x80, 0x80, 0x80, 0x20]]
    k = rng.random()
    if k < 0.12:      # well-formed triggers with 0..3 valid targets (embedded in longer messages too)
        good = [[0x02], [0x03, 0x00], [0x0a], [0x0b, 0x07], varint((2**32 - 1) * 2), varint((2**32 - 1) * 2 + 1) + varint(2**31 - 2)]
        n = rng.randrange(0, 4)
        body = varint(n)
        for _ in range(n):
            body += rng.choice(good)
        return body + varint(rng.randrange(0, 2**32)) + rng.choice([[], [0x00], [0xff, 0xff]])
    if k < 0.25:      # trigger shaped
        n = rng.choice(lens)
        body = varint(n)
        for _ in range(min(n, rng.randrange(0, 4))):
            body += rng.choice(ents)
        body += rng.choice([[], varint(rng.randrange(0, 300)), [0xff] * 6])
        return body
    if k < 0.45:      # mapped event shaped
        return varint(rng.randrange(0, 2**32)) + rng.choice([varint((1 << 32) | 5), varint(5), varint(2**63), varint(2**64 - 1), [], [0xff] * 11, varint((0x80000000 << 32) | 1)])
    if k < 0.6:       # ack shaped: pairs, odd lengths
        return [rng.getrandbits(8) for _ in range(rng.choice([0, 1, 2, 3, 4, 5, 8, 9, 64, 65]))]
    if k < 0.8:       # over-long / truncated varints
        return [0x80 | rng.getrandbits(7) for _ in range(rng.randrange(0, 12))] + rng.choice([[], [rng.getrandbits(7)]])
    return [rng.getrandbits(8) for _ in range(rng.randrange(0, 24))]


def parse_varint(bs, i, maxbits):
    v, shift = 0, 0
    while True:
        if i >= len(bs):
            return None
        b = bs[i]
        i += 1
        v |= (b & 0x7f) << shift
        shift += 7
        if not b & 0x80:
            break
        if shift > 70:
            return None
    if v >= 2 ** maxbits:
        return None
    return v, i


def unit_trigger_targets(bs):
    """number of targets of a well-formed payload-less client trigger message, None when it is malformed: target count,
    then that many entities (flagged index, generation-1 when flagged); written from the wire format, not from the code"""
    r = parse_varint(bs, 0, 64)
    if r is None:
        return None
    n, i = r
    if n > len(bs):
        return None
    for _ in range(n):
        r = parse_varint(bs, i, 64)
        if r is None:
            return None
        flagged, i = r
        if flagged >> 1 >= 2 ** 32:
            return None
        if flagged & 1:
            r = parse_varint(bs, i, 32)
            if r is None:
                return None
            g, i = r
            if g + 1 >= 2 ** 31 or g + 1 == 0:
                return None
    return n


def build_scenario(rng, payloads, attacker_authorized, proto=False):
    """payloads: list of (channel, bytes) to inject, spread over the scenario."""
    lines, meta = gen_scripts.gen_script(rng, nclients=2, auth="proto" if proto else "custom", late_join=False, length=40, events=True, sessions=False)
    if proto:
        # default authorization method: channel 1 carries the protocol hash, the event channels follow; the attacker's
        # bytes also go to the hash channel (garbage, wrong hashes, the right hash twice)
        payloads = [(ch + 1 if ch >= 1 else ch, bs) for ch, bs in payloads]
        payloads = payloads + [(1, bs) for ch, bs in payloads[:len(payloads) // 4]]
        # well-formed protocol-hash triggers with a wrong hash and a target chosen by the sender (small entity indices: the
        # server-side entities of the other clients are among them)
        for idx in range(0, 12):
            for gen_flag in (0, 1):
                ent = varint(idx << 1 | gen_flag) + (varint(0) if gen_flag else [])
                payloads.append((1, varint(1) + ent + varint(rng.randrange(1, 2**40))))
                payloads.append((1, varint(2) + ent + ent + varint(rng.randrange(1, 2**40))))
        rng.shuffle(payloads)
    # slot 0 is the attacker: (un)authorize it explicitly right after the generated prologue
    out = []
    for l in lines:
        if l.startswith("authorize 0"):
            if not attacker_authorized:
                continue
        out.append(l)
    if proto:
        pass        # authorization is decided by the handshake
    elif attacker_authorized and "authorize 0" not in lines:
        idx = max(i for i, l in enumerate(out) if l.startswith("connect 0")) if any(l.startswith("connect 0") for l in out) else None
        if idx is not None:
            out.insert(idx + 1, "authorize 0")
    if not proto and "authorize 1" not in out and any(l.startswith("connect 1") for l in out):
        idx = max(i for i, l in enumerate(out) if l.startswith("connect 1"))
        out.insert(idx + 1, "authorize 1")
    # inject in bursts before server frames in the second half
    first_conn = min([i for i, l in enumerate(out) if l.startswith("connect 0")] or [0])
    frames = [i for i, l in enumerate(out) if l.startswith("sframe") and i > first_conn]
    frames = frames[len(frames) // 3:] or frames
    per = max(1, len(payloads) // max(1, len(frames)))
    res, pi = [], 0
    last_frame_pos = 0           # position in `res` right after the previous server frame
    for i, l in enumerate(out):
        if i in frames and pi < len(payloads):
            # the attacker's bytes reach the server's queues either right before the frame (behind what the other client
            # delivered in this window) or somewhere earlier in the window (AHEAD of the other client's messages)
            at = len(res) if rng.random() < 0.5 else rng.randrange(last_frame_pos, len(res) + 1)
            inj_ = ["inject 0 %d %s" % (ch, hexb(bs)) for ch, bs in payloads[pi:pi + per]]
            res[at:at] = inj_
            pi += per
        res.append(l)
        if l.startswith("sframe"):
            last_frame_pos = len(res)
    while pi < len(payloads):
        for ch, bs in payloads[pi:pi + 64]:
            res.append("inject 0 %d %s" % (ch, hexb(bs)))
        pi += 64
        res.append("sframe 1 16")
    meta["connected"] = [c for c in (0, 1) if any(l.startswith("connect %d" % c) for l in res) and not any(l.startswith("disconnect %d" % c) for l in res)]
    meta["authorized"] = [1] + ([0] if attacker_authorized else [])
    if proto:
        meta["connected"] = [c for c in meta["connected"] if c != meta.get("mismatch")]
    settle_from = len(res)
    res += gen_scripts.settle_lines(meta)
    return res, settle_from


def shadow_scenarios(rng, n):
    """junk from the attacker (slot 0, unauthorized in most cases) reaches the server's acknowledgement queue AHEAD of the
    well-behaved client's acknowledgement in the same server frame; afterwards nothing changes: whatever client 1 acknowledged
    must not be sent to it again"""
    out = []
    for i in range(n):
        auth0 = rng.random() < 0.25
        lines = ["cfg policy=all auth=custom track=%d nclients=2 timeout=10000" % rng.randrange(2), "start", "sframe 0 10", "connect 0 1200"]
        if auth0:
            lines.append("authorize 0")
        lines += ["connect 1 1200", "authorize 1", "sop spawn 1 1 0=1 1=2", "sop spawn 2 1 0=3", "sframe 1 16",
                  "deliver 1 s2c 0 all", "cframe 1", "deliver 1 c2s 0 all"]
        for r in range(rng.randrange(3, 8)):
            lines.append("sop mutate 1 %d=%d" % (r % 2, 10 + r))
            if rng.random() < 0.5:
                lines.append("sop mutate 2 0=%d" % (50 + r))
            lines += ["sframe 1 16", "deliver 1 s2c 0 all", "deliver 1 s2c 1 all", "cframe 1"]
            for _ in range(rng.randrange(1, 4)):
                junk = rng.choice([[rng.randrange(256)], [rng.randrange(256), rng.randrange(256)], [0, 0, 1, 0], [], [rng.randrange(256) for _ in range(rng.randrange(3, 9))]])
                lines.append("inject 0 0 %s" % hexb(junk))
            lines.append("deliver 1 c2s 0 all")
            if rng.random() < 0.4:
                lines.append("inject 0 0 %s" % hexb([rng.randrange(256), rng.randrange(256)]))
            for _ in range(rng.randrange(1, 3)):
                lines += ["sframe 1 16", "deliver 1 s2c 0 all", "deliver 1 s2c 1 all", "cframe 1", "deliver 1 c2s 0 all"]
        meta = dict(connected=[0, 1], events=False, authorized=[1] + ([0] if auth0 else []))
        sf = len(lines)
        out.append((lines + gen_scripts.settle_lines(meta), sf))
    return out


def strip_attacker(block):
    out = []
    for l in block:
        f = l.split()
        if simlib.HANDSHAKE.match(l):
            continue
        if f and f[0] in ("upd", "mut", "evt", "view", "cli", "ack", "bad-partition", "got", "cevt", "tickrecv") and len(f) > 1 and f[1] == "0":
            continue
        if f and f[0] == "from":
            items = [it for it in f[1].split(",") if not it.endswith("@0")]
            if not items:
                continue
            l = "from " + ",".join(items)
        out.append(l)
    return out


def run(tier, seed, replay):
    rep = Report("C06", tier, seed)
    rng = random.Random(seed)
    proofs_ok, ready = prepare(rep, bins=("sim",))
    if not ready:
        return rep.finish()
    nscen = 8 if tier == "quick" else 60
    # payload plan: every 1-byte string on every channel (exhaustive), structure-aware + random beyond
    payloads = [(ch, [b]) for ch in range(7) for b in range(256)] + [(ch, []) for ch in range(7)]
    # channel 6: an event with a string and a float: length prefixes beyond the message, floats cut short
    for n in (0, 1, 2, 5, 0x7f, 0x80, 300, 2**14, 2**32, 2**63, 2**64 - 1):
        for tail in ([], [65], [65, 66], [65, 66, 67, 0, 0], [65] * 8):
            payloads.append((6, varint(n) + tail))
    for cut in range(0, 8):
        payloads.append((6, (varint(3) + [97, 98, 99] + [0, 0, 128, 63])[:cut]))
    # payload-less trigger: announced target counts larger than what follows, with valid one-byte entities behind
    for n in (1, 2, 3, 5, 200):
        for k in range(0, 4):
            payloads.append((5, varint(n) + [rng.choice([2, 4, 6, 8, 24, 40]) for _ in range(k)]))
    if tier == "thorough":
        payloads += [(ch, [a, b]) for ch in (0, 3) for a in range(256) for b in range(0, 256, 5)]
    n_struct = 1500 if tier == "quick" else 20000
    payloads += [(rng.choice([0, 1, 2, 3, 3, 4]), interesting_bytes(rng)) for _ in range(n_struct)]
    # sequence-shaped payloads: a claimed length (small .. 2^64-1) followed by few or no elements
    for _ in range(n_struct // 5):
        n = rng.choice([0, 1, 2, 5, 0x7f, 0x80, 0x3fff, 0x4000, 2**20, 2**28 - 1, 2**31 - 1, 2**32, 2**63, 2**64 - 1])
        body = varint(n)
        for _ in range(min(n, rng.randrange(0, 6))):
            body += varint(rng.choice([0, 1, 300, 2**32, 2**64 - 1]))
        payloads.append((4, body + rng.choice([[], [0xff], [0x00]])))
    for l in read_corpus("C06"):
        ch, h = l.split()
        payloads.insert(0, (int(ch), unhex_list(h)))
    rng.shuffle(payloads)
    chunks = [payloads[i::nscen] for i in range(nscen)]
    batch, metas = [], []
    for i, pl in enumerate(chunks):
        lines, sf = build_scenario(rng, pl, attacker_authorized=(i % 2 == 0), proto=(i % 4 == 3))
        batch.append(lines)
        metas.append(sf)
    for lines, sf in shadow_scenarios(rng, 6 if tier == "quick" else 120):
        batch.append(lines)
        metas.append(sf)
    # implementation with the injected bytes
    impl_runs = []
    all_lines, bounds = [], []
    for lines in batch:
        bounds.append((len(all_lines), len(all_lines) + len(lines)))
        all_lines += lines
    impl_blocks = simlib.run_impl(all_lines)
    # model for the same scripts WITHOUT the injections (isolation): inject lines become comments for the model
    annotated = simlib.annotate([l for l in all_lines], impl_blocks)
    model_blocks = simlib.run_model([("#" + l) if l.startswith("inject") else l for l in annotated])
    # model prints nothing for comment lines: re-align by dropping inject steps from the implementation side
    keep = [i for i, l in enumerate(all_lines) if not l.startswith("inject")]
    oracle_fail, diverged, lost_valid = [], [], []
    # decode verdicts of the byte-level Coq models
    inj = [(i, l.split()) for i, l in enumerate(all_lines) if l.startswith("inject")]
    proto_at = {}
    for (a, b), lines in zip(bounds, batch):
        pr = "auth=proto" in lines[0]
        for i in range(a, b):
            proto_at[i] = pr

    def logical_channel(i, ch):
        """0 ack, 1 CE0, 2 CEM, 3 CT, -1 protocol hash"""
        if proto_at.get(i):
            ch = 0 if ch == 0 else (-1 if ch == 1 else ch - 1)
        if ch == 5:
            return -3                         # 5: the client trigger without payload (verdict by the python trigger parser below)
        return -2 if ch in (4, 6) else ch     # 4: the event with a sequence payload, 6: string + float (no byte-level Coq model: watched for panics and allocations only)
    dec_lines = []
    for i, f in inj:
        ch = logical_channel(i, int(f[2]))
        dec_lines.append("ack_dec %s" % f[3] if ch <= 0 else "cev_dec %s %s" % (CH_NAMES[ch], f[3]))
    verdicts = run_lines(os.path.join(OCAML, "driver"), dec_lines, shards=8) if dec_lines else []
    nontriv = set()
    kinds = dict(ack=0, ce0_ok=0, cem_ok=0, ct_ok=0, err=0)
    for (a, b), sf, lines in zip(bounds, metas, batch):
        steps = all_lines[a:b]
        impl = impl_blocks[a:b]
        tr = simoracle.Trace(steps, impl)
        probs = tr.run(settle_from=sf)
        for p in probs:
            if p["prop"] in ("C01", "C09") and ("panicked" in p["why"] or "client 1" in p["why"] or "undecodable" in p["why"]):
                oracle_fail.append(dict(problem=p, script=lines))
                break
            if p["prop"] == "C11" and "to client 1 " in p["why"] and "re-sent" in p["why"]:
                # "keeps serving every client correctly afterwards": the well-behaved client's acknowledgements still count
                oracle_fail.append(dict(problem=dict(p, why="while another client sends junk: " + p["why"]), script=lines))
                break
        mism = None
        for tok in steps[0].split():
            if tok.startswith("mismatch="):
                mism = tok.split("=")[1]
        for i, blk in enumerate(impl):
            for l in blk:
                if l.startswith("disconnect-request 1") and "auth=proto" in steps[0] and mism != "1":
                    oracle_fail.append(dict(problem=dict(step_index=i, step=steps[i], why="the server asks the backend to disconnect the well-behaved client (whose protocol matches) "
                                                         "because of a message sent by another client: %s" % l), script=lines[:i + 1]))
                if l.startswith("bigalloc"):
                    oracle_fail.append(dict(problem=dict(step_index=i, step=steps[i], why="the server attempted an allocation out of proportion to the message: %s" % l), script=lines[:i + 1]))
    # expected `from ...@0` items per server frame from the verdicts
    vi = 0
    pending = []
    attacker_on, server_on = False, False
    ctu_pending = []
    for i, l in enumerate(all_lines):
        t_ = l.split()
        if t_[0] == "cfg":
            attacker_on, server_on = False, False
        elif t_[0] == "start":
            server_on = True
        elif t_[0] == "stop":
            server_on, attacker_on = False, False
        elif t_[0] == "connect" and t_[1] == "0" and server_on:
            attacker_on = True
        elif t_[0] == "disconnect" and t_[1] == "0":
            attacker_on = False
        if l.startswith("inject"):
            f = l.split()
            # the harness hands the bytes to the server only while the attacker's connection exists
            if attacker_on:
                pending.append((logical_channel(i, int(f[2])), verdicts[vi] if vi < len(verdicts) else "?"))
                if logical_channel(i, int(f[2])) == -3:
                    ctu_pending.append(unhex_list(f[3]))
            vi += 1
        elif l.startswith("sframe"):
            blk = impl_blocks[i] if i < len(impl_blocks) else []
            got = []
            for bl in blk:
                if bl.startswith("from "):
                    got = [it for it in bl.split()[1].split(",") if it.endswith("@0")]
            want = {"CT": [], "CE0": [], "CEM": []}
            for ch, v in pending:
                if ch == 0:
                    kinds["ack"] += 1
                    continue
                if ch == -1:
                    kinds["hash"] = kinds.get("hash", 0) + 1
                    continue
                if ch == -2:
                    kinds["vec"] = kinds.get("vec", 0) + 1
                    continue
                if ch == -3:
                    continue
                if v.startswith("PANIC"):
                    oracle_fail.append(dict(problem=dict(step_index=i, step=l, why="the byte-level model says this message panics the decoder"), script=[]))
                if not v.startswith("OK"):
                    kinds["err"] += 1
                    continue
                f = v.split()
                if ch == 1:
                    kinds["ce0_ok"] += 1
                    want["CE0"].append("CE0:%s@0" % f[1])
                elif ch == 2:
                    kinds["cem_ok"] += 1
                    want["CEM"].append("CEM:%s:r?%s@0" % (f[1], f[2]))
                else:
                    kinds["ct_ok"] += 1
                    ts = f[2][1:-1]
                    if ts:
                        for t in ts.split(","):
                            want["CT"].append("CT:%s:r?%s@0" % (f[1], t))
                    else:
                        want["CT"].append("CT:%s@0" % f[1])
            # real client events of the attacker (generated by the script) also appear; compare only injected-looking items
            # by checking that every expected item is present and no unexpected item with an unknown entity appears
            gotset = list(got)
            for ty in ("CT", "CE0", "CEM"):
                for it in want[ty]:
                    it2 = it
                    if it2 in gotset:
                        gotset.remove(it2)
                    else:
                        # the entity may be a known one
                        base = it.split(":r?")[0]
                        cand = [g for g in gotset if g.startswith(base + ":r") or g == base + "@0"]
                        if cand:
                            gotset.remove(cand[0])
                        elif blk and not any(x.startswith("PANIC") for x in blk) and "running" not in l:
                            # a well-formed message (the byte-level Coq model decodes it) that was handed to the server in this frame
                            # never reached server logic: messages after a malformed one must still be served
                            lost_valid.append(dict(problem=dict(step_index=i, step=l, why="a well-formed client message delivered in this frame never reached server logic "
                                                                "(expected %s, observed %r): the server stopped serving after a malformed message" % (it, got)),
                                                   script=[x for x in all_lines[max(0, i - 80):i + 1]],
                                                   context=dict(block=blk, scenario=[x for x in all_lines[:i] if x.startswith("cfg")][-1],
                                                                recent_steps=[x for x in all_lines[max(0, i - 400):i] if not x.startswith(("inject", "deliver"))][-30:])))
            ctu_expected = 0
            for f2 in ctu_pending:
                n2 = unit_trigger_targets(f2)
                if n2 is not None:
                    ctu_expected += max(1, n2)
            ctu_got = len([g for g in got if g.startswith("CTU:")])
            if blk and not any(x.startswith("PANIC") for x in blk) and ctu_got != ctu_expected:
                lost_valid.append(dict(problem=dict(step_index=i, step=l, why="payload-less client triggers injected in this frame: server logic observed %d trigger invocations, "
                                                    "the well-formed messages among them announce %d (a malformed message must be discarded as a whole)" % (ctu_got, ctu_expected)),
                                       script=[x for x in all_lines[max(0, i - 80):i + 1]]))
            ctu_pending = []
            pending = []
            if len(got) >= 3:
                nontriv.add(i)
    oracle_fail += lost_valid[:1]
    # isolation: compare non-attacker observations of implementation and model
    mi = 0
    for i in keep:
        a = strip_attacker(impl_blocks[i]) if i < len(impl_blocks) else ["<missing>"]
        b = strip_attacker(model_blocks[mi]) if mi < len(model_blocks) else ["<missing>"]
        mi += 1
        if a != b:
            diverged.append(dict(step_index=i, step=all_lines[i], implementation=a, model=b,
                                 why="observations about the world / the other client differ from a run in which the attacker sent nothing"))
            break
    rep.cov["evaluations"] = len(inj)
    rep.cov["traces_validated_against_impl"] = len(batch)
    rep.cov["distinct_nontrivial"] = max(len(nontriv), sum(1 for k in ("ce0_ok", "cem_ok", "ct_ok") if kinds[k]) + 1)
    rep.cov["rule"] = ("bytes injected by client slot 0 (authorized in half of the scenarios, connected but unauthorized in the others) on the acknowledgement channel and on every client event "
                       "channel (plain event, mapped event, trigger with targets) of a live server with a second, well-behaved client: every 1-byte string and the empty message on every channel "
                       "(thorough: 2-byte grids), structure-aware messages with boundary lengths 2^7-1 .. 2^64-1, invalid entity encodings, truncated and over-long varints, random strings. "
                       "non-trivial = server frames in which >= 3 injected messages decoded to events")
    rep.cov["input_distribution"] = dict(injected=len(inj), scenarios=len(batch), **kinds)
    rep.cov["samples"] = [dict(step=all_lines[i], verdict=v) for (i, f), v in list(zip(inj, verdicts))[:5]]
    rep.cov["exhaustive_1_byte_all_channels"] = True
    rep.assumptions = ["user payload types are decoded by serde/postcard (abstract payload codec in the theorems: total and round-tripping); process aborts by the allocator would show up as a missing observation",
                       "largest single allocation request during a server frame must stay below 256 KiB (the frames of the scenarios never allocate more than a few KiB at once; serde's own cautious cap for an unbounded length claim would be 1 MiB)",
                       "acknowledgement indices sent by the attacker may acknowledge its own in-flight messages; effects on the attacker's own replication are excluded from the comparison"]
    rep.cov["disagreements_checked"] = len(diverged)
    if oracle_fail:
        f = oracle_fail[0]
        rep.violation("oracle", dict(what="a client message crashes or exhausts the server, or the other client no longer converges", problem=f["problem"], script=f.get("script"), context=f.get("context")), True)
    elif diverged:
        rep.violation("correspondence", dict(what="byte-level models (Wire.AckCodec/TriggerCodec/HarnessPayload) or the isolation prediction of RV.Events.Remote disagree with the implementation",
                                             first=diverged[:5]), False)
    elif not proofs_ok:
        rep.violation("proof", dict(what="Coq obligation no longer checks", failure=rep.coq_failure), False)
    return rep.finish()


def unhex_list(h):
    return [] if h == "-" else [int(h[i:i + 2], 16) for i in range(0, len(h), 2)]
