"""Running scripts through the real apps (harness `sim`) and the extracted model (`driver sim`)."""
import re
from common import *


def split_steps(output):
    """Output is a sequence of step blocks terminated by '.' lines; 'scenario' starts a new scenario."""
    blocks, cur = [], []
    for line in output.splitlines():
        if line == ".":
            blocks.append(cur)
            cur = []
        else:
            cur.append(line)
    if cur:
        blocks.append(cur)
    return blocks


def run_impl(script_lines, timeout=1800):
    rc, out = sh([harness_bin("sim")], input="\n".join(script_lines) + "\n", timeout=timeout)
    return split_steps(out)


def annotate(script_lines, impl_blocks):
    """Inserts `part <slot> ...` oracle lines (the observed distribution of mutated entities over mutate messages)
    before every sframe, for the model."""
    out = []
    bi = 0
    for line in script_lines:
        t = line.split()
        if not t or line.startswith("#"):
            continue
        if t[0] in ("part", "authz", "cleanup"):
            continue
        block = impl_blocks[bi] if bi < len(impl_blocks) else []
        bi += 1
        if t[0] == "sframe":
            per = {}
            for l in block:
                if l.startswith("mut "):
                    f = l.split()
                    slot = f[1]
                    body = f[-1][len("body="):]
                    ents = [] if body == "-" else [x.split(":")[0] for x in body.split(";")]
                    per.setdefault(slot, []).append(ents)
            for l in block:
                if l.startswith("authorized "):
                    out.append("authz %s" % l.split()[1])
            if "cleanup-timer" in block:
                out.append("cleanup")
            for slot, msgs in sorted(per.items()):
                if len(msgs) == 1 and not msgs[0]:
                    out.append("part %s -" % slot)
                else:
                    out.append("part %s %s" % (slot, "|".join(",".join(m) for m in msgs)))
        if t[0] == "connect" and len(t) > 3:
            line = " ".join(t[:3])          # `slow` (a Connecting phase) is invisible to the model
        if t[0] == "disconnect" and len(t) > 2:
            line = " ".join(t[:2])          # `disconnect c slow`: the connection is lost through a Connecting (retry) frame
        out.append(line)
    return out


def run_model(annotated_lines, timeout=1800):
    rc, out = sh([os.path.join(OCAML, "driver"), "sim"], input="\n".join(annotated_lines) + "\n", timeout=timeout)
    return split_steps(out)


HANDSHAKE = re.compile(r"^(cevt \d+ PHASH|evt \d+ PMISMATCH|authorized \d+|disconnect-request \S+|cleanup-timer)$")


def run_both(script_lines):
    """Returns (steps, impl blocks for comparison, model blocks). Lines of the protocol-check handshake are outside the
    model; they are kept in `raw_impl` (4th result of run_both_raw) for the oracles."""
    steps, impl, model, _ = run_both_raw(script_lines)
    return steps, impl, model


def run_both_raw(script_lines):
    steps = [l for l in script_lines if l.split() and not l.startswith("#") and l.split()[0] not in ("part", "authz")]
    raw = run_impl(steps)
    model = run_model(annotate(steps, raw))
    impl = [[l for l in b if not HANDSHAKE.match(l)] for b in raw]
    return steps, impl, model, raw


def first_divergence(steps, impl, model):
    for i, st in enumerate(steps):
        a = impl[i] if i < len(impl) else ["<missing>"]
        b = model[i] if i < len(model) else ["<missing>"]
        if a != b:
            return dict(step_index=i, step=st, implementation=a, model=b)
    return None
