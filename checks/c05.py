"""C05 - remote events: exactly once, in order, to the intended recipients only."""
import os
import sys
from common import VERIF
from simcheck import sim_check

sys.path.insert(0, os.path.join(VERIF, "gen"))
import scripts as gen_scripts


def long_sessions(rng, tier):
    """a connection that has been quiet for a long time next to a fresh one: their update ticks differ by more than one
    encoding width (>= 128, >= 16384 in the thorough tier) when the same buffered event is stamped for both"""
    out = []
    for i in range(4 if tier == "quick" else 40):
        gap = rng.choice([130, 140, 200]) if (tier == "quick" or i % 8) else 16500
        lines = ["cfg policy=all auth=none track=0 nclients=3 timeout=10000", "start", "sframe 0 10", "connect 0 1200"]
        lines += ["sop spawn 1 1 0=%d" % rng.randrange(50), "sframe 1 16", "deliver 0 s2c 0 all", "cframe 0", "deliver 0 c2s 0 all"]
        lines += ["sframe 1 16"] * gap
        lines += ["connect 1 1200"]
        if rng.random() < 0.5:
            lines += ["sop spawn 2 1 0=1", "sframe 1 16", "deliver 1 s2c 0 all", "cframe 1"]
        seq = 0
        for _ in range(rng.randrange(2, 6)):
            seq += 1
            ty = rng.choice(["SE0", "SE0", "SEU", "ST", "SEI"])
            mode = rng.choice(["b", "b", "x0", "x1", "d0", "d1"])
            lines.append("sop ev %s %s %d" % (ty, mode, seq))
            if rng.random() < 0.5:
                lines.append("sframe 1 16")
        lines.append("sframe 1 16")
        meta = dict(connected=[0, 1], events=True)
        sf = len(lines)
        lines += gen_scripts.settle_lines(meta)
        out.append(("long-session-%d" % i, lines, sf))
    return out


def queued_ticks(rng, tier):
    """events of one type wait on the client under SEVERAL ticks (their update messages are late); then all update messages
    arrive in one client frame together with a fresh event of that type: everything is handed over in sending order"""
    out = []
    for i in range(24 if tier == "quick" else 800):
        ncl = rng.choice([1, 2])
        lines = ["cfg policy=all auth=none track=0 nclients=%d timeout=10000" % ncl, "start", "sframe 0 10"]
        for c in range(ncl):
            lines.append("connect %d 1200" % c)
        lines += ["sop spawn 1 1 0=1", "sframe 1 16"]
        for c in range(ncl):
            lines += ["deliver %d s2c 0 all" % c, "cframe %d" % c, "deliver %d c2s 0 all" % c]
        seq, ent = 0, 2
        ty = rng.choice(["SE0", "SE0", "ST"])
        ch = gen_scripts.S2C_EVENT_CH[ty]
        for _ in range(rng.randrange(2, 5)):                 # ticks whose update messages are held back
            lines.append("sop spawn %d 1 0=%d" % (ent, ent))
            ent += 1
            for _ in range(rng.choice([1, 1, 2])):
                seq += 1
                lines.append("sop ev %s b %d" % (ty, seq))
            lines.append("sframe 1 16")
            lines += ["deliver 0 s2c %d all" % ch, "cframe 0"]          # the events arrive and are queued
        seq += 1
        lines += ["sop ev %s b %d" % (ty, seq), "sframe 1 16"]        # a fresh event whose tick brings no structural change
        lines += ["deliver 0 s2c 0 all", "deliver 0 s2c %d all" % ch, "cframe 0", "cframe 0", "deliver 0 c2s 0 all"]
        meta = dict(connected=list(range(ncl)), events=True)
        sf = len(lines)
        out.append(("queued-ticks-%d" % i, lines + gen_scripts.settle_lines(meta), sf))
    return out


def client_bursts(rng, tier):
    """several client events / triggers of one type written in ONE client frame, some of them naming an entity the client has no
    mapping for (hidden from it, not replicated, or not yet delivered): those are not sent, the others arrive exactly once, in
    order, with the server's identifiers"""
    out = []
    for i in range(30 if tier == "quick" else 1200):
        pol = rng.choice(["black", "black", "all"])
        lines = ["cfg policy=%s auth=none track=0 nclients=2 timeout=10000" % pol, "start", "sframe 0 10", "connect 0 1200", "connect 1 1200"]
        lines += ["sop spawn 1 1 0=1", "sop spawn 2 1 0=2", "sop spawn 3 0 0=3"]            # 3 is never replicated
        if pol == "black":
            lines.append("sop vis 0 2 0")                                                     # 2 is hidden from client 0
        lines.append("sframe 1 16")
        for c in (0, 1):
            lines += ["deliver %d s2c 0 all" % c, "cframe %d" % c, "deliver %d c2s 0 all" % c]
        lines += ["sop spawn 4 1 0=4", "sframe 1 16"]                                         # 4 exists, its update is still in flight
        seq = 0
        for _ in range(rng.randrange(1, 4)):
            c = rng.choice([0, 0, 1])
            ty = rng.choice(["CEM", "CEM", "CT"])
            for _ in range(rng.randrange(2, 6)):
                seq += 1
                lines.append("cop %d ev %s %d r%d" % (c, ty, seq, rng.choice([1, 1, 2, 3, 4])))
            lines.append("cframe %d" % c)
            if rng.random() < 0.5:
                lines += ["deliver %d c2s %d all" % (c, gen_scripts.C2S_EVENT_CH[ty]), "sframe 1 16"]
        meta = dict(connected=[0, 1], events=True)
        sf = len(lines)
        lines += gen_scripts.settle_lines(meta)
        out.append(("client-burst-%d" % i, lines, sf))
    return out


def run(tier, seed, replay):
    kws = [dict(events=True, weights=dict(sev=4.0, cev=3.0, edeliver=6.0)), dict(events=True, nclients=3, sessions=True), dict(events=True, auth="custom", nclients=2), dict(events=True, nclients=3, weights=dict(session=0.6)),
           dict(events=True, nclients=2, sessions=True, quick_reconnect=0.6, weights=dict(session=0.9, sev=4.0, edeliver=5.0))]
    return sim_check("C05", tier, seed, kws, n_quick=240, n_thorough=24000, oracle_props={"C05"}, custom_scripts=lambda rng, tier: long_sessions(rng, tier) + client_bursts(rng, tier) + queued_ticks(rng, tier),
                     rule_extra=", long-lived quiet connections next to fresh ones (update ticks of different encoding widths), events of five server types and three client types in both directions, all send modes, clients connecting, authorizing and disconnecting at arbitrary points",
                     extra_assumptions=["intended recipients of a dependent event are the connections that exist when it is written and are authorized when the tick flushes it (unauthorized connections only get independent events, C07)",
                                        "a reconnect happens after at least one client frame (C09's premise); otherwise the event queue of the old session survives (C05_quick_reconnect_receives_old_event)",
                                        "channels' own guarantees (reliable = no loss/duplication, ordered = FIFO) are the backend's; the scripts only take the deliveries those contracts allow"],
                     model_name="RV.Repl.Sys + RV.Events.Remote")
