"""C05 - remote events: exactly once, in order, to the intended recipients only."""
from simcheck import sim_check


def run(tier, seed, replay):
    kws = [dict(events=True, weights=dict(sev=4.0, cev=3.0, edeliver=6.0)), dict(events=True, nclients=3, sessions=True), dict(events=True, auth="custom", nclients=2), dict(events=True, nclients=3, weights=dict(session=0.6))]
    return sim_check("C05", tier, seed, kws, n_quick=240, n_thorough=24000, oracle_props={"C05"},
                     rule_extra=", events of five server types and three client types in both directions, all send modes, clients connecting, authorizing and disconnecting at arbitrary points",
                     extra_assumptions=["intended recipients of a dependent event are the connections that exist when it is written and are authorized when the tick flushes it (unauthorized connections only get independent events, C07)",
                                        "a reconnect happens after at least one client frame (C09's premise); otherwise the event queue of the old session survives (C05_quick_reconnect_receives_old_event)",
                                        "channels' own guarantees (reliable = no loss/duplication, ordered = FIFO) are the backend's; the scripts only take the deliveries those contracts allow"],
                     model_name="RV.Repl.Sys + RV.Events.Remote")
