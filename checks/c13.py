"""C13 - singleplayer / listen server / dedicated server / client: each local event handled through exactly one path."""
import random
from common import *
import simlib
import locallib
import backendx


def gen_local(rng):
    full = rng.random() < 0.8
    lines = ["cfg plugins=%s" % ("full" if full else "noclient")]
    running, status, remote = False, "disconnected", False
    seq = 0
    expect = {}      # seq -> dict(kind, ...)
    for _ in range(rng.randrange(10, 45)):
        r = rng.random()
        if r < 0.12:
            if status == "disconnected" or not full:
                if running:
                    lines.append("server stop")
                    running, remote = False, False
                    lines.append("frame %d" % rng.choice([0, 16]))
                else:
                    lines.append("server start")
                    running = True
                    lines.append("frame %d" % rng.choice([0, 16]))     # the server notices it runs (a stop without a frame in between is never noticed)
        elif r < 0.27 and full and not running:
            nxt = {"disconnected": ["connecting", "connected"], "connecting": ["connected", "disconnected"], "connected": ["disconnected"]}[status]
            status = rng.choice(nxt)
            lines.append("client %s" % status)
        elif r < 0.34 and running:
            if remote:
                lines.append("remote disconnect")
                remote = False
            else:
                lines.append("remote connect")
                remote = True
        else:
            emits = []
            for _ in range(rng.choice([0, 1, 1, 2, 3])):
                seq += 1
                k = rng.random()
                if k < 0.5 and status != "connecting":
                    ty = rng.choice(["ce", "ct"])
                    emits.append("emit %s %d" % (ty, seq))
                    expect[seq] = dict(kind=ty, full=full, status=status, running=running)
                elif status == "disconnected" or not full:
                    ty = rng.choice(["se", "st", "se", "st", "sei", "sti"])
                    m = rng.choice(["b", "xs", "ds"] + (["xr", "dr"] if remote else []))
                    emits.append("emit %s %s %d" % (ty, m, seq))
                    expect[seq] = dict(kind=ty[:2], independent=(len(ty) == 3), mode=m, full=full, status=status, running=running, remote=remote)
            lines += emits
            lines.append("frame %d" % rng.choice([0, 0, 5, 16, 16, 40]))
    lines += ["frame 16", "frame 16", "frame 16"]
    return lines, expect


def gen_immediate(rng):
    """events written between two frames (not in Update) around a loss of connection: implementation only (the model's frames
    emit in Update); a client that has just lost its connection acts as singleplayer again, so what it sends towards the server
    from then on must be observed locally exactly once and never reach the network"""
    lines = ["cfg plugins=full", "frame 16"]
    expect = {}
    seq = 0
    status = "disconnected"
    if rng.random() < 0.3:
        # the event type was an ordinary Bevy event first and one event was written before it was registered as a client event
        lines = ["cfg plugins=full early=9000"] + (["server start"] if rng.random() < 0.5 else []) + ["frame 16"]
        expect[9000] = dict(kind="ce", full=True, status="disconnected", running=False)
    for _ in range(rng.randrange(2, 6)):
        if status == "disconnected":
            if rng.random() < 0.6:
                lines.append("client connecting")
                lines.append("frame %d" % rng.choice([0, 16]))
                # written while CONNECTING: neither sent nor handled locally (kept, then discarded when the connection comes up)
                for _ in range(rng.randrange(0, 3)):
                    seq += 1
                    ty = rng.choice(["ce", "ct"])
                    lines.append("emit %s %d" % (ty, seq))
                    expect[seq] = dict(kind=ty, full=True, status="connecting", running=False)
                    lines.append("frame %d" % rng.choice([0, 16]))
            lines.append("client connected")
            status = "connected"
            lines.append("frame %d" % rng.choice([0, 16]))
            for _ in range(rng.randrange(0, 3)):
                seq += 1
                ty = rng.choice(["ce", "ct"])
                lines.append("emit %s %d" % (ty, seq))
                expect[seq] = dict(kind=ty, full=True, status="connected", running=False)
                lines.append("frame %d" % rng.choice([0, 5, 16]))
        else:
            lines.append("client disconnected")
            status = "disconnected"
            for _ in range(rng.randrange(1, 3)):
                seq += 1
                ty = rng.choice(["ce", "ct"])
                lines.append("emitnow %s %d" % (ty, seq))
                expect[seq] = dict(kind=ty, full=True, status="disconnected", running=False)
            lines.append("frame %d" % rng.choice([0, 5, 16]))
            lines.append("frame 16")
    lines += ["frame 16", "frame 16"]
    return lines, expect


def oracle(lines, impl, expect):
    counts = {}
    status, full = "disconnected", True
    problems = []
    emitted_at, last_disconnect = {}, -1
    for i, (l, blk) in enumerate(zip(lines, impl)):
        t = l.split()
        if t[0] in ("emit", "emitnow") and t[1] in ("ce", "ct") and t[-1].isdigit():
            emitted_at[int(t[-1])] = i
        if t[0] == "client" and len(t) > 1 and t[1] == "disconnected":
            last_disconnect = i
        if t[0] == "cfg":
            full = t[1] != "plugins=noclient"
            status = "disconnected"
        if t[0] == "client" and full:
            status = t[1]
        for o in blk:
            if o == "PANIC" or o == "dead":
                problems.append(dict(step_index=i, step=l, why="the app panicked"))
                return problems
            f = o.split()
            if f[0] in ("from", "got", "net-c2s", "net-s2c"):
                name, sq = f[1].split("@")[0].split(":")
                counts.setdefault(int(sq), {}).setdefault(f[0], 0)
                counts[int(sq)][f[0]] += 1
                ex_ = expect.get(int(sq)) if sq.isdigit() else None
                if f[0] == "from" and ex_ and ex_.get("status") == "connecting" and last_disconnect < emitted_at.get(int(sq), -1):
                    problems.append(dict(step_index=i, step=l, why="event %s was written while the client was CONNECTING and is handled locally although the connection attempt has not failed" % sq))
                if f[0] == "from" and not f[1].endswith("@S"):
                    problems.append(dict(step_index=i, step=l, why="locally re-emitted event carries sender %s instead of the local server identity" % f[1]))
                if f[0] == "net-c2s" and status != "connected":
                    problems.append(dict(step_index=i, step=l, why="a client event was put on the network while there is no connection: %s" % o))
    for sq, ex in expect.items():
        c = counts.get(sq, {})
        loc_from, loc_got = c.get("from", 0), c.get("got", 0)
        n_c2s, n_s2c = c.get("net-c2s", 0), c.get("net-s2c", 0)
        if ex["kind"] in ("ce", "ct"):
            if loc_from + n_c2s > 1:
                problems.append(dict(seq=sq, why="event %d was handled %d times (locally %d, network %d)" % (sq, loc_from + n_c2s, loc_from, n_c2s), expectation=ex))
            elif not ex["full"]:
                pass          # dedicated server: only promised that nothing is observed twice
            elif ex["status"] == "disconnected" and (loc_from != 1 or n_c2s != 0):
                problems.append(dict(seq=sq, why="event %d sent towards the server while acting as server/singleplayer: observed locally %d times, network %d (expected exactly once locally)" % (sq, loc_from, n_c2s), expectation=ex))
            elif ex["status"] == "connected" and (n_c2s != 1 or loc_from != 0):
                problems.append(dict(seq=sq, why="event %d sent while connected: network %d, locally %d (expected exactly once on the network, never locally)" % (sq, n_c2s, loc_from), expectation=ex))
        else:
            m = ex["mode"]
            local = m in ("b", "ds", "xr")
            rem = m in ("b", "xs", "dr")
            if loc_got > 1 or n_s2c > 1:
                problems.append(dict(seq=sq, why="server event %d observed locally %d times / sent %d times" % (sq, loc_got, n_s2c), expectation=ex))
            want_local = 1 if local else 0
            if ex["full"] or ex["kind"] == "se":
                if loc_got != want_local:
                    problems.append(dict(seq=sq, why="server event %d (mode %s) observed locally %d times, expected %d" % (sq, m, loc_got, want_local), expectation=ex))
            want_net = 1 if (rem and ex["running"] and ex["remote"]) else 0
            if n_s2c != want_net:
                problems.append(dict(seq=sq, why="server event %d (mode %s) sent to the remote client %d times, expected %d" % (sq, m, n_s2c, want_net), expectation=ex))
    return problems


def run(tier, seed, replay):
    rep = Report("C13", tier, seed)
    rng = random.Random(seed)
    proofs_ok, ready = prepare(rep, bins=("local", "kernels"))
    if not ready:
        return rep.finish()
    n = 300 if tier == "quick" else 8000
    scripts, expects = [], []
    d = os.path.join(VERIF, "corpus", "C13")
    if os.path.isdir(d):
        for fn in sorted(os.listdir(d)):
            if fn.endswith(".local"):
                scripts.append([l.rstrip("\n") for l in open(os.path.join(d, fn)) if l.strip() and not l.startswith("#")])
                expects.append(None)
    for _ in range(n):
        l, e = gen_local(rng)
        scripts.append(l)
        expects.append(e)
    all_lines, bounds = [], []
    for l in scripts:
        bounds.append((len(all_lines), len(all_lines) + len(l)))
        all_lines += l
    steps, impl, model = locallib.run_both(all_lines)
    diverged, oracle_fail, nontriv = [], [], set()
    dist = dict(ce=0, ct=0, se=0, st=0, full=0, noclient=0)
    for (a, b), lines, ex in zip(bounds, scripts, expects):
        dv = simlib.first_divergence(steps[a:b], impl[a:b], model[a:b])
        if dv:
            diverged.append(dict(divergence=dv, script=lines))
        dist["full" if "full" in lines[0] else "noclient"] += 1
        if ex is None:
            # corpus scripts carry their expectation as the model's answer: the implementation must show no double handling
            ex = {}
        for e in ex.values():
            dist[e["kind"]] += 1
        pr = oracle(steps[a:b], impl[a:b], ex)
        if pr:
            oracle_fail.append(dict(problem=pr[0], script=lines))
        if len(ex) >= 5:
            nontriv.add("\n".join(lines))
    # implementation-only: emissions between frames around a loss of connection
    imm = [gen_immediate(rng) for _ in range(60 if tier == "quick" else 2000)]
    imm_lines = [l for sc, _ in imm for l in sc]
    imm_blocks = locallib.run_impl(imm_lines)
    pos = 0
    for sc, ex in imm:
        blk = [[x for x in b if not x.startswith("fixed=")] for b in imm_blocks[pos:pos + len(sc)]]
        pos += len(sc)
        pr = oracle(sc, blk, ex)
        if pr:
            oracle_fail.append(dict(problem=pr[0], script=sc))
    rep.cov["immediate_emission_scripts"] = len(imm)
    # implementation-only: the same question with a REAL transport (example backend over loopback TCP): the status changes are
    # made by the backend's own systems in their own schedule sets, not by the harness
    nbx = 24 if tier == "quick" else 400
    bx = [backendx.gen_transition(rng) for _ in range(nbx)]
    bx_lines = ["backendx " + "/".join(st) for st, _ in bx]
    for l, o, (_, em) in zip(bx_lines, run_lines(harness_bin("kernels"), bx_lines, shards=min(8, len(bx_lines))), bx):
        why = backendx.judge_transition(o, em)
        if why:
            oracle_fail.append(dict(problem=dict(why=why, implementation=o[:600]), script=[l]))
    rep.cov["backend_transition_scripts"] = dict(cases=nbx, rule="a real server app and a real client app over the example backend; client events and triggers written in singleplayer frames, connected frames, the frame in which the socket resource is removed and the frame in which end-of-stream is read after a server stop; each must be observed exactly once: at the remote server or as a local re-emission")
    rep.cov["evaluations"] = len(scripts) + len(imm) + nbx
    rep.cov["traces_validated_against_impl"] = len(scripts)
    rep.cov["distinct_nontrivial"] = len(nontriv)
    rep.cov["rule"] = ("one real app per script, built with or without the client-side plugins, driven through server start/stop, client disconnected/connecting/connected, a remote client joining/leaving, "
                       "local game logic writing client events, client triggers, server events and server triggers (all five send modes) in arbitrary frames, frame times 0..40 ms so that Events::update "
                       "is gated by the fixed timestep in some frames; counts per event of local observations and network copies judged against the property text; every step compared with the model. "
                       "non-trivial = distinct script with >= 5 emissions")
    rep.cov["input_distribution"] = dist
    rep.cov["samples"] = [dict(script=scripts[-1][:20])]
    rep.assumptions = ["supported configurations only: a running local server implies a disconnected local client; events written while the client is Connecting are discarded by design (reset on connect) and are not generated",
                       "Bevy's event-update gating itself (fixed timestep) is an input of the model (observed per frame)"]
    rep.cov["disagreements_checked"] = len(diverged)
    if oracle_fail:
        rep.violation("oracle", dict(what="a local event is handled twice, not at all, or through the wrong path", problem=oracle_fail[0]["problem"], script=oracle_fail[0]["script"],
                                     replay_cmd=".cache/target/debug/local < script-lines"), True)
    elif diverged:
        rep.violation("correspondence", dict(what="model RV.Events.Local and the implementation disagree", first=diverged[0]), False)
    elif not proofs_ok:
        rep.violation("proof", dict(what="Coq obligation no longer checks", failure=rep.coq_failure), False)
    return rep.finish()
