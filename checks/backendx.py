"""Step scripts for the `backendx` kernel (a real server app and real client apps over the example backend, loopback TCP) and
the judgements on their logs.  Implementation only: the example backend's plugin wiring (system order, sets, run conditions)
is outside the Coq models; these runs are the tie for that glue."""


def parse(out):
    """`S=..;C0=..` -> {app: [(tag, k, seq, size, ok)]}"""
    logs = {}
    for rec in out.split("|")[0].split(";"):
        name, items = rec.split("=")
        logs[name] = []
        if items == "-":
            continue
        for it in items.split(","):
            tag, rest = it.split(":")
            k, sq, size, okf = rest.split(".")
            logs[name].append((tag, int(k), int(sq), int(size), okf == "1"))
    return logs


def extras(out):
    """the part after `|`: {"N": (connected, authorized), "C0st": "connected", ...}"""
    d = {}
    if "|" in out:
        for rec in out.split("|")[1].split(";"):
            k, v = rec.split("=")
            d[k] = tuple(int(x) for x in v.split("/")) if k == "N" else v
    return d


def gen_mismatch(rng):
    """default protocol check over the real backend, ticks slower than frames (manual tick policy, 20 ms frames so that Bevy's
    event buffers rotate every frame): client 0 has the server's protocol, client 1 registers one more event.  Client 1 must be
    disconnected by the server's backend within a few frames of its hash arriving - tick or no tick -, is never authorized and is
    never sent a dependent event; client 0 is authorized and gets every broadcast made after its authorization"""
    steps = ["cfg:proto", "cfg:manual", "cfg:dt20", "C0new", "sl", "Su", "C0u", "sl", "Su", "T", "Su", "C0u"]
    sent, seq = [], 0
    for _ in range(rng.randrange(0, 3)):            # frames without a tick before the mismatching client shows up
        steps += ["Su", "C0u"]
    steps += ["C1newx", "sl", "Su", "C1u", "sl"]
    for _ in range(rng.randrange(3, 7)):            # frames, mostly without ticks; broadcasts in some of them
        if rng.random() < 0.5:
            seq += 1
            steps.append("b:0:%d" % rng.choice([0, 10, 200]))
            sent.append((0, seq, None))
        if rng.random() < 0.25:
            steps.append("T")
        steps += ["Su", "sl", "C0u", "C1u"]
    steps += ["T", "Su", "sl", "C0u", "C1u", "Su", "sl", "C0u", "C1u"]
    return steps, sent


def judge_mismatch(out, sent):
    if "=" not in out:
        return "the example backend did not come up or panicked"
    logs, ex = parse(out), extras(out)
    if ex.get("N") != (1, 1):
        return "after the exchange the server has %r connections / authorized clients, expected exactly the matching client (1, 1): the client with the differing protocol was not asked to disconnect (or was authorized)" % (ex.get("N"),)
    if ex.get("C1st") != "disconnected":
        return "the client with the differing protocol is still %s" % ex.get("C1st")
    if ex.get("C0st") != "connected":
        return "the matching client is %s" % ex.get("C0st")
    if [x for x in logs.get("C1", []) if x[0] == "D"]:
        return "the client with the differing protocol was sent a dependent event"
    have = sorted(x[2] for x in logs.get("C0", []) if x[0] == "D")
    if have != sorted(sq for (_, sq, _) in sent):
        return "the authorized client got broadcasts %r, sent %r" % (have, sorted(sq for (_, sq, _) in sent))
    return None


def gen_leave(rng):
    """two clients; one leaves (drops its socket) in the very server frame in which the other one's messages are read: the
    departure of one connection must not cost another connection's messages"""
    steps = ["C0new", "sl", "Su", "C0u", "C1new", "sl", "Su", "C1u", "sl", "Su", "C0u", "C1u"]
    sent, seq = [], 0
    for _ in range(rng.randrange(1, 4)):
        stay, leave = (1, 0) if rng.random() < 0.7 else (0, 1)
        for _ in range(rng.choice([1, 4, 12])):
            k = rng.randrange(5)
            seq += 1
            steps.append("c%d:%d:%d" % (stay, k, rng.choice([0, 10, 300])))
            sent.append((k, seq))
        steps.append("C%du" % stay)                       # on the wire
        steps += ["C%ddrop" % leave, "C%du" % leave, "sl", "Su", "Su"]      # the server sees end-of-stream and the messages in one frame
        steps += ["C%dconn" % leave, "sl", "Su", "C%du" % leave, "sl", "Su"]
    steps += ["C0u", "C1u", "sl", "Su", "Su"]
    return steps, sent


def judge_leave(out, sent):
    if "=" not in out:
        return "the example backend did not come up or panicked"
    have = [(x[1], x[2]) for x in parse(out).get("S", []) if x[0] == "R"]
    if sorted(have) != sorted(sent):
        return "client -> server messages of the client that stayed were lost or duplicated when the other client left (sent %d, arrived %d)" % (len(sent), len(have))
    for k in (0, 2, 4):
        o = [sq for (kk, sq) in have if kk == k]
        if o != sorted(o):
            return "ordered channel %d out of sending order %r" % (k, o[:20])
    return None


def gen_late(rng):
    """messages pile up in the client's socket before the client app's FIRST frame (and between later frames): every one must
    arrive exactly once, the ordered channel in sending order"""
    steps, sent, seq = ["C0new", "sl", "Su", "Su"], [], 0
    for _ in range(rng.randrange(1, 4)):            # server frames before the client's first frame
        for _ in range(rng.choice([1, 3, 7, 12, 21])):
            k, size = rng.randrange(2), rng.choice([0, 1, 10, 100, 700, 1100])
            seq += 1
            steps.append("b:%d:%d" % (k, size))
            sent.append((k, seq, size))
        steps.append("Su")
    steps += ["sl", "C0u"]
    for _ in range(rng.randrange(0, 3)):            # later: several server frames between two client frames
        for _ in range(rng.randrange(1, 4)):
            for _ in range(rng.choice([0, 2, 9])):
                k, size = rng.randrange(2), rng.choice([0, 5, 300, 1100])
                seq += 1
                steps.append("b:%d:%d" % (k, size))
                sent.append((k, seq, size))
            steps.append("Su")
        steps += ["sl", "C0u"]
    steps += ["C0u", "C0u"]
    return steps, sent


def judge_late(out, sent):
    if "=" not in out:
        return "the example backend did not come up or panicked"
    have = [x for x in parse(out).get("C0", []) if x[0] == "D"]
    if any(not x[4] for x in have):
        return "a payload arrived altered"
    if sorted((k, sq, size) for (_, k, sq, size, _) in have) != sorted(sent):
        return "messages waiting in the socket before a client frame were lost or duplicated (sent %d, arrived %d)" % (len(sent), len(have))
    ordered = [sq for (_, k, sq, _, _) in have if k == 0]
    if ordered != sorted(ordered):
        return "ordered channel out of sending order %r" % ordered[:20]
    return None


def gen_transition(rng):
    """a client game that writes events / triggers towards the server in arbitrary frames while its connection comes and goes
    (socket resource removed locally, or the server stops and the client reads end-of-stream): every one is handled through
    exactly one path.  The server keeps running frames so that whatever reached the network is read."""
    steps, emitted, seq = ["C0solo"], {}, 0
    connected, server_up = False, True

    def emit(n, phase):
        nonlocal seq
        for _ in range(n):
            seq += 1
            if rng.random() < 0.4:
                steps.append("t0")
            else:
                steps.append("c0:%d:%d" % (rng.randrange(5), rng.choice([0, 3, 40])))
            emitted[seq] = phase

    for _ in range(rng.randrange(2, 7)):
        if not connected:
            for _ in range(rng.randrange(0, 3)):                 # singleplayer frames
                emit(rng.choice([0, 1, 2]), "offline")
                steps += ["C0u", "Su"]
            if not server_up:
                steps += ["Sstart", "Su"]
                server_up = True
            steps.append("C0conn")
            emit(rng.choice([0, 0, 1]), "connect-frame")         # written before the frame in which the connection is noticed
            steps += ["sl", "Su", "C0u", "sl", "Su"]
            connected = True
        else:
            for _ in range(rng.randrange(0, 3)):
                emit(rng.choice([0, 1, 3]), "online")
                steps += ["C0u", "sl", "Su"]
            steps += ["sl", "Su"]                                # what is on the wire is read before the connection goes away
            if rng.random() < 0.5:
                steps.append("C0drop")
                emit(rng.choice([1, 1, 2]), "local-disconnect-frame")
                steps += ["C0u", "Su", "Su"]
            else:
                steps += ["Sstop", "Su", "sl"]
                server_up = False
                emit(rng.choice([1, 1, 2]), "remote-disconnect-frame")
                steps += ["C0u", "Su"]
            connected = False
            emit(rng.choice([0, 1]), "after-disconnect")
            steps += ["C0u", "Su"]
    steps += ["C0u", "sl", "Su", "C0u", "Su"]
    return steps, emitted


def judge_transition(out, emitted):
    if "=" not in out:
        return "the example backend did not come up or panicked"
    logs = parse(out)
    remote = [x[2] for x in logs.get("S", []) if x[0] == "R"]
    local = [x[2] for x in logs.get("C0", []) if x[0] == "L"]
    if [x for x in logs.get("S", []) if x[0] == "L"] or [x for x in logs.get("C0", []) if x[0] == "R"]:
        return "an event surfaced on the wrong side"
    for sq, phase in sorted(emitted.items()):
        n_r, n_l = remote.count(sq), local.count(sq)
        if phase == "connect-frame":
            # written between the last singleplayer frame and the frame that notices the connection: discarded by design
            # (ClientSet::ResetEvents on connect), the only promise is "not twice"
            if n_r + n_l > 1:
                return "event %d (written in phase %s) was handled %d times" % (sq, phase, n_r + n_l)
            continue
        if n_r + n_l != 1:
            return "event %d (written in phase %s) was handled %d times (remote server %d, local re-emission %d): expected exactly one path" % (sq, phase, n_r + n_l, n_r, n_l)
        if phase in ("offline", "local-disconnect-frame", "remote-disconnect-frame", "after-disconnect") and n_l != 1:
            return "event %d written while there is no connection (phase %s) reached the network" % (sq, phase)
    return None
