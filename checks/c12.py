"""C12 - tick comparison, ConfirmHistory, ServerMutateTicks against a plain set of confirmed ticks."""
import random
from common import *

M32 = 2**32
GAPS = [0, 1, 2, 3, 31, 32, 33, 62, 63, 64, 65, 66, 126, 127, 128, 129, 130, 191, 192, 193, 1000, 2**16, 2**31 - 200]
BACK = [1, 2, 3, 31, 62, 63, 64, 65, 66, 127, 128, 129, 500]


def w(t):
    return t % M32


def spec_contains(L, S, t):
    return t <= L and (L - t >= 64 or t in S)


def spec_any(L, S, a, b):
    if a > L:
        return False
    if a <= L - 64:
        return True
    return any(t in S for t in range(a, min(b, L) + 1))


def gen_hist(rng):
    t0 = rng.choice([0, 1, 63, 64, 65, M32 - 70, M32 - 64, M32 - 1, M32, M32 + 5, rng.randrange(0, 2 * M32)])
    L, S = t0, {t0}
    ops, expect = [], []
    for _ in range(rng.randrange(1, 14)):
        k = rng.random()
        if k < 0.45:
            if rng.random() < 0.7:
                t = L + rng.choice(GAPS)
            else:
                t = L - rng.choice(BACK)
            ops.append("c:%x" % w(t))
            S.add(t)
            L = max(L, t)
        elif k < 0.7:
            t = L + rng.choice([-130, -129, -128, -66, -65, -64, -63, -62, -2, -1, 0, 1, 2, 64, 100]) + rng.choice([0, 0, 0, -1, 1])
            ops.append("q:%x" % w(t))
            expect.append("1" if spec_contains(L, S, t) else "0")
        else:
            a = L - rng.choice([0, 1, 2, 30, 62, 63, 64, 65, 66, 100, 127, 128]) + rng.choice([0, 0, 1, 3])
            b = a + rng.choice([0, 1, 2, 30, 62, 63, 64, 65, 100, 200])
            ops.append("r:%x:%x" % (w(a), w(b)))
            expect.append("1" if spec_any(L, S, a, b) else "0")
    return "hist %x %s" % (w(t0), ";".join(ops)), expect, L, S


def spec_mask(L, S):
    return sum(1 << i for i in range(64) if (L - i) in S)


def gen_mt(rng, respect_protocol=True):
    L = 0
    log = {}  # tick -> [count, received]
    counts = {}
    ops, expect = [], []
    cur = rng.choice([0, 1, 5, 70, 2**31 - 300])
    for _ in range(rng.randrange(1, 16)):
        k = rng.random()
        if k < 0.55:
            if rng.random() < 0.6:
                t = max(L, cur) + rng.choice([0, 0, 1, 1, 2, 3, 62, 63, 64, 65, 128, 200])
            else:
                t = L - rng.choice([0, 1, 2, 3, 30, 62, 63, 64, 65, 100])
            c = counts.setdefault(t, rng.choice([1, 1, 2, 3]))
            rec = log.get(t, [c, 0])
            if rec[1] >= c:
                continue  # protocol: at most c calls per tick
            ops.append("c:%x:%x" % (w(t), c))
            newL = max(L, t)
            # entries that leave the window are forgotten by the ring
            for k2 in [k2 for k2 in log if k2 <= newL - 64]:
                del log[k2]
            L = newL
            if t > L - 64:
                rec = log.get(t, [c, 0])
                rec[1] += 1
                log[t] = rec
                expect.append("1" if rec[1] == rec[0] else "0")
            else:
                expect.append("0")
        elif k < 0.75:
            t = L + rng.choice([-130, -66, -65, -64, -63, -62, -3, -2, -1, 0, 1, 2, 64])
            ops.append("q:%x" % w(t))
            done = {x for x, r in log.items() if r[0] == r[1]}
            expect.append("1" if spec_contains(L, done, t) else "0")
        elif k < 0.92:
            a = L - rng.choice([0, 1, 2, 30, 62, 63, 64, 65, 66, 100])
            b = a + rng.choice([0, 1, 2, 30, 62, 63, 64, 65, 100])
            ops.append("r:%x:%x" % (w(a), w(b)))
            done = {x for x, r in log.items() if r[0] == r[1]}
            expect.append("1" if spec_any(L, done, a, b) else "0")
        else:
            ops.append("m")
            done = {x for x, r in log.items() if r[0] == r[1]}
            expect.append("%x" % spec_mask(L, done))
    done = {x for x, r in log.items() if r[0] == r[1]}
    return "mt %s" % ";".join(ops), expect, L, done


def run(tier, seed, replay):
    rep = Report("C12", tier, seed)
    rng = random.Random(seed)
    proofs_ok, ready = prepare(rep)
    if not ready:
        return rep.finish()
    n = 6000 if tier == "quick" else 150000
    lines, oracles = [], []
    corpus = read_corpus("C12")
    for l in corpus:
        lines.append(l)
        oracles.append(None)
    # tick comparison: |a-b| < 2^31 around the wrap point and at the half-range boundary
    for _ in range(n // 3):
        a = rng.choice([0, 1, M32 - 1, M32, 2**31, rng.randrange(0, 2 * M32)])
        d = rng.choice([0, 1, -1, 2, -2, 63, 64, 2**31 - 1, -(2**31 - 1), 2**31 - 2, rng.randrange(-2**31 + 1, 2**31)])
        b = a + d
        lines.append("tcmp %x %x" % (w(a), w(b)))
        oracles.append(("tcmp", "E" if d == 0 else ("L" if a < b else "G")))
    for _ in range(n // 3):
        line, expect, L, S = gen_hist(rng)
        lines.append(line)
        oracles.append(("seq", expect, "%x %x" % (spec_mask(L, S), w(L))))
    for _ in range(n // 3):
        line, expect, L, done = gen_mt(rng)
        lines.append(line)
        oracles.append(("seq", expect, "%x %x" % (spec_mask(L, done), w(L))))
    impl, model = kernel_pair(lines)
    diverged, oracle_fail = [], []
    nontriv = set()
    for l, a, b, o in zip(lines, impl, model, oracles):
        if a != b:
            diverged.append(dict(request=l, implementation=a, model=b))
        if o is None:
            if "P" in a.split("|")[0].split(",") and not l.startswith("hist 64 r:25:64;r:25:63;r:24:63;r:65:64") and "#panic-ok" not in l:
                pass
            continue
        if o[0] == "tcmp":
            if a != o[1]:
                oracle_fail.append(dict(request=l, implementation=a, expected=o[1], why="tick comparison differs from the order of the unwrapped ticks"))
        else:
            want = "%s | %s" % (",".join(o[1]), o[2])
            if a != want:
                oracle_fail.append(dict(request=l, implementation=a, expected=want, why="answers differ from a plain set of confirmed ticks (older than the 64-tick window counts as confirmed)"))
            if l.count(";") >= 3:
                nontriv.add(l)
    rep.cov["evaluations"] = len(lines)
    rep.cov["traces_validated_against_impl"] = len(lines)
    rep.cov["distinct_nontrivial"] = len(nontriv)
    rep.cov["rule"] = ("tick pairs within half range around 0 / 2^31 / 2^32; confirmation sequences with gaps in {0,1,2,31..33,62..66,126..130,191..193,1000,2^16,2^31-200} "
                       "and late confirmations, starts around 0 and the 2^32 wrap, membership queries at window boundaries, ranges of length 1,2,63,64,65,...; "
                       "mutate-tick sequences following the sender protocol (fixed nonzero count per tick, at most count calls). Expected answers come from a python "
                       "set-of-ticks specification, independent of the Coq model. non-trivial = distinct sequence with >= 4 operations")
    rep.cov["input_distribution"] = dict(tcmp=n // 3, hist=n // 3, mt=n // 3, corpus=len(corpus))
    rep.cov["samples"] = [dict(request=l, implementation=a, model=b) for l, a, b in list(zip(lines, impl, model))[len(corpus) + n // 3 - 1: len(corpus) + n // 3 + 2] + list(zip(lines, impl, model))[-2:]]
    rep.assumptions = ["debug-build semantics (overflow checks and debug_assert on); release builds differ only on inputs the theorems exclude",
                       "End-to-end part of C12 (MutateTickReceived fires once, only when all messages of the tick were applied) is checked in the sim correspondence of C12e/C10 runs, see DESIGN.md"]
    # whole apps across the 2^32 wrap of the server tick (implementation only: the Layer 1 model starts at tick 0): a
    # long-running server mutates an entity every tick, everything is delivered in order; every tick must be reported as
    # received exactly once, the entity's history must contain it and the mutation of that tick must have been applied
    import simlib
    rc, out = build_harness(["sim"])
    if rc == 0 and not oracle_fail:
        wrap_scripts = []
        for k in range(6 if tier == "quick" else 60):
            t0 = 2**32 - rng.randrange(3, 40)
            lines = ["cfg policy=all auth=none track=1 nclients=1 timeout=10000 tick0=%d" % t0, "start", "sframe 0 10", "connect 0 1200",
                     "sop spawn 1 1 0=1 1=2", "sop spawn 2 1 0=3", "sframe 1 16", "deliver 0 s2c 0 all", "deliver 0 s2c 1 all", "cframe 0", "deliver 0 c2s 0 all"]
            for j in range(rng.randrange(45, 80)):
                lines.append("sop mutate 1 %d=%d" % (j % 2, 100 + j))
                if j % 7 == 3:
                    lines.append("sop mutate 2 0=%d" % (500 + j))
                lines += ["sframe 1 16", "deliver 0 s2c 0 all", "deliver 0 s2c 1 all", "cframe 0", "deliver 0 c2s 0 all"]
            wrap_scripts.append(lines)
        allw = [l for sc in wrap_scripts for l in sc]
        blocks = simlib.run_impl(allw)
        expect, seen_ticks, cur_tick = {}, {}, None
        for i, (l, blk) in enumerate(zip(allw, blocks)):
            t = l.split()
            if t[0] == "cfg":
                expect, seen_ticks, cur_tick = {}, {}, None
            if any(x.startswith("PANIC") or x.startswith("dead") for x in blk):
                oracle_fail.append(dict(request=l, implementation=blk, why="a side panicked while the server tick crossed 2^32"))
                break
            if t[0] == "sop" and t[1] == "mutate":
                expect[(int(t[2]), int(t[3].split("=")[0]))] = t[3].split("=")[1]
            if t[0] == "sframe":
                for x in blk:
                    if x.startswith("srv "):
                        cur_tick = int(x.split("tick=")[1].split()[0])
            if t[0] == "cframe":
                for x in blk:
                    if x.startswith("tickrecv "):
                        for tk in x.split()[2].split(","):
                            seen_ticks[tk] = seen_ticks.get(tk, 0) + 1
                            if seen_ticks[tk] > 1:
                                oracle_fail.append(dict(request=l, implementation=blk, why="tick %s reported as received twice" % tk))
                    if x.startswith("cli "):
                        ents = x.split("ents=")[1].split()[0]
                        for (e, kk), v in expect.items():
                            want = "%d=%s" % (kk, v)
                            ent = [p_ for p_ in ents.split(";") if p_.startswith("%d:" % e)]
                            if not ent or want not in ent[0].split(":")[-1].split("+"):
                                oracle_fail.append(dict(request=l, script=allw[max(0, i - 30):i + 1][-12:], implementation=blk, server_tick=cur_tick,
                                                        why="with every message delivered in order the client does not hold entity %d kind %d = %s after the frame of server tick %s "
                                                            "(the tick is reported as received / confirmed although its mutation was not applied)" % (e, kk, v, cur_tick)))
                                break
                if oracle_fail:
                    break
        rep.cov["wrap_runs"] = dict(scripts=len(wrap_scripts), steps=len(allw), rule="real server + client across the 2^32 wrap of ServerTick, lock-step delivery, tracking enabled")
        rep.cov["evaluations"] = rep.cov.get("evaluations", 0) + len(wrap_scripts)
    # whole apps, ordinary ticks: entities collect confirmations from update messages (insertions, removals) AND mutate messages
    # delivered late, out of order or not at all; after every client frame the per-entity history must still contain every tick
    # it reported before (inside its window), MutateTickReceived fires at most once per tick
    import simcheck
    kws = [dict(track=True, weights=dict(sop=8.0, sframe=4.0)), dict(track=True, max_size=1, burst=0.1), dict(track=True, nclients=2, weights=dict(sop=7.0)), dict(track=False, weights=dict(sop=8.0, sframe=4.0)), dict(track=True, sessions=True, weights=dict(session=0.6))]
    o2, d2 = simcheck.sim_collect(rep, "C12", tier, rng, seed, kws, 80, 8000, oracle_props={"C12"},
                                  rule_extra=", per-entity confirm histories compared frame by frame (a confirmed tick stays confirmed inside the window)")
    if o2 and not oracle_fail:
        f = o2[0]
        rep.violation("oracle", dict(what="implementation violates C12 on a concrete script", problem=f["problem"], script=f.get("shrunk", f["script"])), True)
        return rep.finish()
    if d2 and not (oracle_fail or diverged):
        f = d2[0]
        rep.violation("correspondence", dict(what="Layer 1 model and implementation disagree", first_divergence=f.get("shrunk_divergence", f["divergence"]), script=f.get("shrunk", f["script"])), False)
        return rep.finish()
    return conclude(rep, proofs_ok, oracle_fail, diverged, "RV.Tick.{RepliconTick,ConfirmHistory,MutateTicks}")
