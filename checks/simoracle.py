"""Implementation-side oracles for Layer 1 traces (the search for a concrete failing input).

They read ONLY the script and the implementation's observations (never the model's output) and decide
the properties as the property texts state them.  Each returns a list of problems
(dict(prop=..., step=..., why=...)); the caller attributes them to known-finding classes."""
import re

def tick_lt(a, b):
    """a is older than b in the wrapping order of RepliconTick (difference below half the range)"""
    d = (b - a) % 2**32
    return 0 < d < 2**31


EVERY_TICK = {0, 1, 3}
ONCE = {2}


def parse_ents(s):
    """'1:0=5+1=7;2:' -> {1: {0:'5',1:'7'}, 2: {}}"""
    out = {}
    if s == "-" or s == "":
        return out
    for item in s.split(";"):
        e, cs = item.split(":", 1)
        d = {}
        if cs:
            for kv in cs.split("+"):
                if "=" not in kv or not kv.split("=")[0].isdigit():
                    d[-1] = kv                # a component the harness cannot name (garbled message)
                    continue
                k, v = kv.split("=", 1)
                d[int(k)] = v
        out[int(e) if e.isdigit() else -1] = d          # -1: an entity the server does not have (garbled message)
    return out


def parse_cli(line):
    # cli <c> ut=<ut> ok=<0|1> ents=<...> extra=<...> mt=<...>
    m = re.match(r"cli (\d+) ut=(\d+) ok=(\d) ents=(\S+) extra=(\S+) mt=(\S+)", line)
    c, ut, ok, ents, extra, mt = m.groups()
    parsed = {}
    if ents != "-":
        for item in ents.split(";"):
            mm = re.match(r"(\d+)(dead|(p\d+)?:m(\d):h([^:]+):(.*))$", item)
            if mm is None:
                # the client maps a server entity the harness has no id for (it never existed on the server)
                parsed.setdefault(-1, dict(dead=False, pre=None, marker=True, last=None, comps={}, bogus=item))
                continue
            e = int(mm.group(1))
            if mm.group(2) == "dead":
                parsed[e] = dict(dead=True)
                continue
            comps = {}
            if mm.group(6):
                for kv in mm.group(6).split("+"):
                    k, v = kv.split("=")
                    comps[int(k)] = v
            h = mm.group(5)
            parsed[e] = dict(dead=False, pre=mm.group(3), marker=mm.group(4) == "1",
                             last=None if h == "-" else int(h.split("/")[0]), comps=comps,
                             mask=None if h == "-" or "/" not in h else int(h.split("/")[1], 16))
    return int(c), int(ut), ok == "1", parsed, ([] if extra == "-" else extra.split(";")), mt


def kv_field(line, name):
    m = re.search(r"\b%s=(\S+)" % name, line)
    return m.group(1) if m else None


class Trace:
    """Walks script and implementation output once and keeps what the oracles need."""

    def __init__(self, steps, impl):
        self.steps = steps
        self.impl = impl
        self.problems = []

    def add(self, prop, i, why, **kw):
        d = dict(prop=prop, step_index=i, step=self.steps[i] if i < len(self.steps) else None, why=why)
        d.update(kw)
        self.problems.append(d)

    def run(self, settle_from=None):
        steps, impl = self.steps, self.impl
        if any(st.startswith("reconnect ") for st in steps):
            # a connection re-established without Disconnected: for the oracles a disconnect immediately followed by a connect
            # (a session the client never noticed: C09's premise does not hold for it)
            s2, i2, shift = [], [], 0
            for k_, st in enumerate(steps):
                if st.startswith("reconnect "):
                    t_ = st.split()
                    s2 += ["disconnect %s" % t_[1], "connect %s %s" % (t_[1], t_[2])]
                    i2 += [[], impl[k_] if k_ < len(impl) else []]
                    if settle_from is not None and k_ < settle_from:
                        shift += 1
                else:
                    s2.append(st)
                    i2.append(impl[k_] if k_ < len(impl) else ["<missing>"])
            steps, impl = s2, i2
            if settle_from is not None:
                settle_from += shift
        cfg = {}
        connected, authorized = {}, set()
        epoch = 0
        snapshots = {}         # (epoch, tick, client) -> {entity: comps}
        last_view = {}         # client -> {entity: comps}
        prev_view = {}         # client -> the view of the tick before
        session = {}           # client -> dict(ut, last={entity: tick}, extras_at_start)
        tick_now = 0
        auth_tick_pending = set()
        hash_state = {}
        pre_pending, pre_published = {}, {}
        quick_session, frames_since_disconnect = {}, {}
        mut_required = {}
        tickrecv = {}
        emitted = {}           # seq -> dict(ty, mode, step, connected, ent)
        stamps = {}            # (client, seq) -> stamp of the message sent to that client
        delivered = {}         # (client session id, seq) -> count
        cemitted = {}          # seq -> dict(ty, client, session, step, ent)
        cdelivered = {}        # seq -> list of sender slots observed by server logic
        sess_id = {}           # client -> running session number
        sess_counter = [0]
        last_got = {}          # (client, ty) -> last seq delivered (order check)
        upd_sent, upd_delivered, upd_applied = {}, {}, {}     # per client: ticks of update messages sent / how many delivered / applied
        upd_des = {}                                          # per client: despawn list of every update message sent (same order)
        # C11 "stops being re-sent afterwards": mutate messages by index, acknowledgements on their way, what the server has
        # been told, and the tick at which each component's latest change first became visible to replication
        mut_msgs, acks_inflight, acks_at_server, acked_tick, chg_tick, pending_chg = {}, {}, {}, {}, {}, set()
        stopped_frames = None                                 # frames the server has run since a stop (None: running)
        pending_cops = {}
        maps = {}              # (client, entity) -> pre-spawn id the server registered
        pre_dead = set()       # (client, pre id) the client's own logic despawned
        pre_dead_pending = {}
        follows = {}           # entity -> target of its relationship (script level)
        pending_sops = []
        spec_marked = {}       # entity -> bool (alive and carrying the marker)
        spec_vis = {}          # (client, entity) -> most recent setting since the entity last started replicating
        policy_default = True
        self.stats = dict(upd=0, mut=0, mut_multi=0, acks=0, buffered_applied=0, frames=0, cframes=0, ticks=0, entities_in_mut=0)
        silent_check_from = settle_from
        last_settle_frame = None
        for i, st in enumerate(steps):
            t = st.split()
            block = impl[i] if i < len(impl) else ["<missing>"]
            for l in block:
                if l.startswith("PANIC") or l == "<missing>" or l.startswith("dead "):
                    # a crashed app serves nobody: whatever property is being judged, it no longer holds
                    for p_ in ["C01", "C09"] + ["C%02d" % k_ for k_ in range(2, 17) if k_ != 9]:
                        self.add(p_, i, "a side panicked or stopped: %s" % l)
                    return self.problems
                if l.startswith("orphan-message") or "UNDECODABLE" in l:
                    self.add("C01", i, "undecodable or misaddressed message: %s" % l)
            if t[0] == "sop":
                pending_sops.append(t[1:])
            if t[0] == "cop" and t[2] in ("prespawn", "prespawnr"):
                pre_pending.setdefault(int(t[1]), []).append(int(t[3]))
            if t[0] == "cframe":
                frames_since_disconnect[int(t[1])] = frames_since_disconnect.get(int(t[1]), 0) + 1
                pre_published.setdefault(int(t[1]), set()).update(pre_pending.pop(int(t[1]), []))
            if t[0] == "cop" and t[2] == "despawn":
                pre_dead_pending.setdefault(int(t[1]), []).append(int(t[3]))
            if t[0] == "cop" and t[2] == "ev":
                pending_cops.setdefault(int(t[1]), []).append(t[3:])
            if cfg.get("auth") == "proto":
                # liveness of the handshake: a connected client sends its hash in its first frame; once the server has the
                # hash of a client it decides in its next frame
                if t[0] == "connect" and int(t[1]) not in connected:
                    hash_state[int(t[1])] = "connected"
                if t[0] == "disconnect" or t[0] == "stop":
                    for c_ in ([int(t[1])] if t[0] == "disconnect" else list(hash_state)):
                        hash_state.pop(c_, None)
                if t[0] == "cframe" and hash_state.get(int(t[1])) == "connected":
                    if "cevt %s PHASH" % t[1] in block:
                        hash_state[int(t[1])] = "sent"
                    else:
                        self.add("C07", i, "client %s did not send its protocol hash in its first frame after connecting" % t[1])
                        self.add("C14", i, "client %s did not send its protocol hash in its first frame after connecting" % t[1])
                        hash_state[int(t[1])] = "failed"
                if t[0] == "deliver" and t[2] == "c2s" and t[3] == "1" and hash_state.get(int(t[1])) == "sent":
                    hash_state[int(t[1])] = "delivered"
                if t[0] == "drop" and t[2] == "c2s" and t[3] == "1" and hash_state.get(int(t[1])) == "sent":
                    hash_state[int(t[1])] = "lost"
                if t[0] == "sframe":
                    for c_, st_ in list(hash_state.items()):
                        if st_ == "delivered":
                            hash_state[c_] = "decided"
                            if str(c_) == cfg.get("mismatch"):
                                if "evt %d PMISMATCH" % c_ not in block or "disconnect-request %d" % c_ not in block:
                                    self.add("C07", i, "client %d has a different protocol: the server must notify it and request a disconnect in the frame it reads the hash" % c_)
                                    self.add("C14", i, "client %d has a different protocol: the server must notify it and request a disconnect in the frame it reads the hash" % c_)
                            elif "authorized %d" % c_ not in block:
                                self.add("C07", i, "client %d has the same protocol hash and the server read it, but did not authorize the client" % c_)
                                self.add("C14", i, "client %d has the same protocol hash and the server read it, but did not authorize the client" % c_)
                for l in block:
                    f = l.split()
                    if f[0] == "authorized":
                        c_ = int(f[1])
                        if cfg.get("mismatch") == f[1]:
                            self.add("C07", i, "client %d has a different protocol hash but was authorized" % c_)
                            self.add("C14", i, "client %d has a different protocol hash but was authorized" % c_)
                        if c_ in connected and c_ not in authorized:
                            authorized.add(c_)
                            auth_tick_pending.add(c_)
                    if f[0] == "disconnect-request" and f[1] != cfg.get("mismatch") and f[1] != "?":
                        self.add("C07", i, "a disconnect was requested for client %s whose protocol matches" % f[1])
                    if f[0] == "evt" and len(f) > 2 and f[2] == "PMISMATCH" and f[1] != cfg.get("mismatch"):
                        self.add("C07", i, "client %s was told its protocol mismatches although it matches" % f[1])
                if t[0] == "sframe" and cfg.get("mismatch") is not None:
                    got_mm = any(l == "evt %s PMISMATCH" % cfg["mismatch"] for l in block)
                    got_dr = any(l == "disconnect-request %s" % cfg["mismatch"] for l in block)
                    if got_mm != got_dr:
                        self.add("C07", i, "mismatch notification and disconnect request do not come together (notification %s, request %s)" % (got_mm, got_dr))
            if t[0] == "cfg":
                cfg = dict(kv.split("=") for kv in t[1:])
                pending_sops, spec_marked, spec_vis = [], {}, {}
                policy_default = cfg.get("policy", "all") != "white"
                connected, authorized = {}, set()
                session, last_view, snapshots, tickrecv = {}, {}, {}, {}
                prev_view = {}
                epoch = 0
            elif t[0] == "connect":
                # mirrors the harness: ignored when the slot is busy
                c = int(t[1])
                if c not in connected:
                    connected[c] = True
                    # C09's premise: the client ran at least one frame between two sessions (otherwise it never notices)
                    quick_session[c] = frames_since_disconnect.get(c, 1) == 0
                    if cfg.get("auth", "none") == "none":
                        authorized.add(c)
                        auth_tick_pending.add(c)
                    session[c] = dict(ut=None, last={}, extras=None)
                    upd_sent[c], upd_delivered[c], upd_applied[c] = [], 0, 0
                    upd_des[c] = []
                    sess_counter[0] += 1
                    sess_id[c] = sess_counter[0]
            elif t[0] == "authorize":
                c = int(t[1])
                if c in connected and c not in authorized:
                    authorized.add(c)
                    auth_tick_pending.add(c)
            elif t[0] == "disconnect":
                c = int(t[1])
                if c in connected:
                    frames_since_disconnect[c] = 0
                connected.pop(c, None)
                acks_inflight.pop(c, None)
                acks_at_server.pop(c, None)
                authorized.discard(c)
                auth_tick_pending.discard(c)
                session.pop(c, None)
                last_view.pop(c, None)
                prev_view.pop(c, None)
                for k_ in [k_ for k_ in maps if k_[0] == c]:
                    del maps[k_]          # the server forgets pre-spawn mappings with the connection
                for k_ in [k_ for k_ in spec_vis if k_[0] == c]:
                    del spec_vis[k_]      # ... and its visibility settings
            elif t[0] == "start":
                stopped_frames = None
            elif t[0] == "stop":
                epoch += 1
                stopped_frames = 0
                mut_msgs.clear(); acks_inflight.clear(); acks_at_server.clear(); acked_tick.clear()
            elif t[0] in ("deliver", "drop") and t[2] == "c2s" and t[3] == "0":
                c = int(t[1])
                q_ = acks_inflight.get(c, [])
                take_ = q_[:] if t[4] == "all" else (q_[:1] if t[4] == "first" else q_[-1:])
                for a_ in take_:
                    q_.remove(a_)
                if t[0] == "deliver":
                    acks_at_server.setdefault(c, []).extend(take_)
            elif t[0] == "deliver" and t[2] == "s2c" and t[3] == "0":
                c = int(t[1])
                if c in upd_sent:
                    pending_n = len(upd_sent[c]) - upd_delivered[c]
                    upd_delivered[c] += pending_n if t[4] == "all" else min(1, pending_n)
            elif t[0] == "sframe":
                self.stats["frames"] += 1
                for c_, lists_ in list(acks_at_server.items()):
                    for idxs_ in lists_:
                        for ix_ in idxs_:
                            mm_ = mut_msgs.get((sess_id.get(c_), c_, ix_))
                            if mm_ is not None and c_ in authorized:
                                for e_ in mm_[1]:
                                    key_ = (sess_id.get(c_), c_, e_)
                                    if key_ not in acked_tick or tick_lt(acked_tick[key_], mm_[0]):
                                        acked_tick[key_] = mm_[0]
                    acks_at_server[c_] = []
                for op in pending_sops:
                    if op[0] in ("mutate", "insert", "spawn"):
                        for kv_ in op[(3 if op[0] == "spawn" else 2):]:
                            if "=" in kv_ and kv_.split("=")[0].isdigit():
                                pending_chg.add((int(op[1]), int(kv_.split("=")[0])))
                    if op[0] == "ev":
                        ty, mode, sq = op[1], op[2], int(op[3])
                        ok_mode = mode in ("b", "ds") or int(mode[1:]) in connected
                        ent_ = op[4] if len(op) > 4 else None
                        if ent_ is not None and int(ent_.lstrip("r")) not in spec_marked:
                            # the script names an entity that was never spawned (only shrunk scripts do): the harness sends a
                            # trigger without target and skips a mapped event
                            if ty == "SEM":
                                ok_mode = False
                            ent_ = None
                        if ok_mode:
                            emitted[sq] = dict(ty=ty, mode=mode, step=i, connected={c: sess_id[c] for c in connected},
                                               ent=ent_, running=True)
                        continue
                    if op[0] == "rel":
                        e_, t_ = int(op[1]), int(op[2])
                        if spec_marked.get(e_) is not None and spec_marked.get(t_) is not None and e_ in spec_marked and t_ in spec_marked and e_ != t_:
                            follows[e_] = t_
                        continue
                    if op[0] == "unrel":
                        follows.pop(int(op[1]), None)
                        continue
                    if op[0] == "premap":
                        c_, e_, pc_ = int(op[1]), int(op[2]), int(op[3])
                        if c_ in connected and pc_ in pre_published.get(c_, ()) and e_ in spec_marked:
                            maps[(c_, e_)] = pc_
                        continue
                    if op[0] == "map":
                        c_, e_, pc_ = int(op[1]), int(op[2]), int(op[3])
                        if c_ in authorized and pc_ in pre_published.get(c_, ()):      # the script can only name entities the client has spawned and shown
                            maps[(c_, e_)] = pc_
                        continue
                    if op[0] == "spawn":
                        e = int(op[1])
                        if e not in spec_marked:
                            spec_marked[e] = op[2] == "1"
                    elif op[0] == "despawn":
                        e = int(op[1])
                        for k_ in [k_ for k_ in maps if k_[1] == e]:
                            if e in last_view.get(k_[0], {}):
                                pre_dead.add((k_[0], maps[k_]))     # the adopted pre-spawned entity is despawned with it: a later mapping to it finds it dead
                            del maps[k_]      # the mapping is consumed once the entity leaves the client
                        follows.pop(e, None)
                        for k_ in [k_ for k_, v_ in follows.items() if v_ == e]:
                            del follows[k_]   # sources lose the relationship with their target
                        if e in spec_marked:
                            spec_marked[e] = None          # dead
                            for k in [k for k in spec_vis if k[1] == e]:
                                del spec_vis[k]
                    elif op[0] == "unmark":
                        e = int(op[1])
                        for k_ in [k_ for k_ in maps if k_[1] == e]:
                            if e in last_view.get(k_[0], {}):
                                pre_dead.add((k_[0], maps[k_]))
                            del maps[k_]
                        if spec_marked.get(e):
                            spec_marked[e] = False
                            for k in [k for k in spec_vis if k[1] == e]:
                                del spec_vis[k]
                    elif op[0] == "mark":
                        e = int(op[1])
                        if spec_marked.get(e) is False:
                            spec_marked[e] = True
                    elif op[0] == "vis":
                        c, e = int(op[1]), int(op[2])
                        if c in authorized and cfg.get("policy", "all") != "all" and e in spec_marked:
                            spec_vis[(c, e)] = op[3] == "1"
                            if op[3] == "0":
                                if (c, e) in maps and e in last_view.get(c, {}):
                                    pre_dead.add((c, maps[(c, e)]))
                                maps.pop((c, e), None)
                pending_sops = []
                ran = False
                muts_this_tick = {}
                for l in block:
                    f = l.split()
                    if f[0] == "srv":
                        tick_now = int(kv_field(l, "tick"))
                        ran = kv_field(l, "ran") == "1"
                        if stopped_frames is not None:
                            stopped_frames += 1
                            if stopped_frames == 1 and tick_now != 0 and not cfg.get("tick0"):
                                self.add("C09", i, "the server was stopped but still reports tick %d after its next frame: the old session's tick counter is kept (the frame after a stop resets the server to its initial state)" % tick_now)
                        if ran:
                            for key_ in pending_chg:
                                chg_tick[key_] = tick_now
                            pending_chg = set()
                        if any(x.startswith("cleanup-timer") for x in block):
                            mut_msgs.clear()          # conservatively: acknowledgements arriving from now on may be junk for the server
                        if ran:
                            self.stats["ticks"] += 1
                        # buffered events are flushed by the next replication tick (independent ones at once): the recipients
                        # that are authorized at that moment must be sent the event
                        for em_ in emitted.values():
                            if "flush_auth" not in em_ and (ran or em_["ty"] == "SEI"):
                                em_["flush_auth"] = set(c_ for c_ in authorized if c_ in connected)
                    elif f[0] == "view":
                        c = int(f[1])
                        v = parse_ents(f[2])
                        snapshots[(epoch, tick_now, c)] = v
                        if c in last_view:
                            prev_view[c] = last_view[c]
                        else:
                            prev_view.pop(c, None)
                        last_view[c] = v
                        # the visibility the server applies must be the most recent setting of every live entity
                        if cfg.get("policy", "all") != "all":
                            for e, mk in spec_marked.items():
                                if not mk:
                                    continue
                                want = spec_vis.get((c, e), policy_default)
                                if want and e not in v:
                                    self.add("C08", i, "entity %d should be visible to client %d (most recent setting) but is not replicated to it" % (e, c))
                                if not want and e in v:
                                    self.add("C08", i, "entity %d is hidden from client %d (most recent setting) but the server treats it as visible" % (e, c))
                for l in block:
                    f = l.split()
                    if f[0] == "evt" and f[2] == "PMISMATCH":
                        continue
                    if f[0] == "evt" and (len(f) < 5 or "UNDECODABLE" in l):
                        for p_ in ("C05", "C04"):
                            self.add(p_, i, "the server sent client %s an event message that does not decode to the event that was written: %s" % (f[1], l))
                        continue
                    if f[0] == "evt":
                        c, ty, sq = int(f[1]), f[2], int(f[4].split(":")[0])
                        tk = f[3][2:]
                        stamps[(c, sq)] = None if tk == "-" else int(tk)
                        em0_ = emitted.get(sq)
                        if ty != "SEI" and em0_ is not None and "flush_auth" in em0_ and c not in em0_["flush_auth"]:
                            why_ = ("dependent event %d is sent to client %d, which was not authorized when the tick after the event's emission flushed it: "
                                    "an unauthorized client gets nothing but independent events, also not later" % (sq, c))
                            self.add("C07", i, why_)
                            self.add("C05", i, why_)
                        if ty != "SEI" and not ran:
                            self.add("C04", i, "dependent event %d was put on the wire for client %d in a server frame without a replication tick: what the world changed since the last "
                                               "tick is not replicated yet, so the event outruns the replication it depends on" % (sq, c))
                        # the event depends on everything replicated to this client so far (this frame's update message included)
                        last_upd = None
                        for l2 in block:
                            if l2.startswith("upd %d " % c) and "UNDECODABLE" not in l2:
                                last_upd = int(kv_field(l2, "t"))
                        if last_upd is None and upd_sent.get(c):
                            last_upd = upd_sent[c][-1]
                        if ty != "SEI" and tk != "-" and last_upd is not None and int(tk) != last_upd:
                            self.add("C04", i, "event %d for client %d is stamped with update tick %s although the last update message sent to that client has tick %d: "
                                               "the client may hand it to game logic %s" % (sq, c, tk, last_upd, "before it applied that update" if int(tk) < last_upd else "only after an update that may never come"))
                        if c not in authorized and ty != "SEI":
                            self.add("C07", i, "event that is not independent sent to a client that is not authorized: %s" % l)
                        em = emitted.get(sq)
                        if em is None:
                            self.add("C05", i, "event message that no game logic emitted: %s" % l)
                        else:
                            if c not in em["connected"] or em["connected"][c] != sess_id.get(c):
                                self.add("C05", i, "client %d is sent event %d which was emitted before it connected" % (c, sq))
                            m = em["mode"]
                            if (m == "ds") or (m[0] == "x" and int(m[1:]) == c) or (m[0] == "d" and m != "ds" and int(m[1:]) != c):
                                self.add("C05", i, "client %d is not a recipient of event %d (mode %s)" % (c, sq, m))
                    if f[0] == "from":
                        for item in f[1].split(","):
                            body, who = item.split("@")
                            parts = body.split(":")
                            sq = int(parts[1])
                            cdelivered.setdefault(sq, []).append(who)
                            ce = cemitted.get(sq)
                            if ce is None:
                                self.add("C05", i, "server logic observed a client event nobody emitted: %s" % item)
                            else:
                                if who != str(ce["client"]):
                                    self.add("C05", i, "client event %d arrived with sender %s, emitted by client %d" % (sq, who, ce["client"]))
                                if len(cdelivered[sq]) > 1:
                                    self.add("C05", i, "client event %d reached server logic %d times" % (sq, len(cdelivered[sq])))
                                if ce["ent"] is not None and (len(parts) < 3 or parts[2] != ce["ent"]):
                                    self.add("C05", i, "client event %d carries entity %s, the client meant %s" % (sq, parts[2] if len(parts) > 2 else None, ce["ent"]))
                for l in block:
                    f = l.split()
                    if f[0] in ("upd", "mut") and "UNDECODABLE" in l:
                        for p_ in ("C01", "C02", "C03") + (("C08",) if cfg.get("policy", "all") != "all" else ()):
                            self.add(p_, i, "the server sent a replication message that cannot be decoded (what the client loses or gains in it is not applied): %s" % l)
                        continue
                    if f[0] in ("upd", "mut"):
                        c = int(f[1])
                        self.stats[f[0]] += 1
                        if f[0] == "upd" and c in upd_sent:
                            upd_sent[c].append(int(kv_field(l, "t")))
                            des_ = kv_field(l, "des")
                            upd_des.setdefault(c, []).append(set() if des_ in (None, "-") else {int(x) for x in re.findall(r"\d+", des_)})
                        if c not in authorized:
                            self.add("C07", i, "replication message sent to a client that is not authorized: %s" % l)
                        view = snapshots.get((epoch, tick_now, c), {})
                        body = parse_ents(kv_field(l, "chg") if f[0] == "upd" else kv_field(l, "body"))
                        if -1 in body or any(-1 in cs_ for cs_ in body.values()):
                            for p_ in ("C01", "C02", "C03"):
                                self.add(p_, i, "the server sent a replication message naming an entity or component it does not have (garbled ranges): %s" % l)
                            body = {e_: {k_: v_ for k_, v_ in cs_.items() if k_ != -1} for e_, cs_ in body.items() if e_ != -1}
                        for e in body:
                            if e not in view:
                                self.add("C08", i, "message to client %d carries data of entity %d which is not visible/replicated to it at this tick: %s" % (c, e, l))
                        for e, comps in body.items():
                            for k, v in comps.items():
                                if e in view and view[e].get(k) != v:
                                    self.add("C02", i, "message carries a value that is not the server's current value: entity %d kind %d %s" % (e, k, l))
                        if f[0] == "upd" and c in prev_view and cfg.get("policy", "all") != "all":
                            # an entity that became visible to this client since the previous tick must arrive whole
                            for e_ in sorted(set(view) - set(prev_view[c])):
                                if e_ not in body or set(body[e_]) != set(view[e_]):
                                    why = ("entity %d became visible to client %d at this tick but the message does not carry the whole entity "
                                           "(sent %r, the entity has %r): %s" % (e_, c, sorted(body.get(e_, {})), sorted(view[e_]), l))
                                    self.add("C08", i, why)
                        if f[0] == "upd":
                            rem_ = kv_field(l, "rem")
                            for item_ in ([] if rem_ in (None, "-") else rem_.split(";")):
                                if not item_.split(":")[0].isdigit():
                                    for p_ in ("C01", "C02", "C03"):
                                        self.add(p_, i, "the server sent an update message whose removal list names an entity it does not have (garbled message): %s" % l)
                                    continue
                                e_ = int(item_.split(":")[0])
                                if e_ not in view:
                                    why = ("the message to client %d carries a removal record for entity %d, which the server does not replicate to it at this tick "
                                           "(the client re-creates the entity to apply it): %s" % (c, e_, l))
                                    self.add("C03", i, why)
                                    if cfg.get("policy", "all") != "all":
                                        self.add("C08", i, why)
                        if f[0] == "upd":
                            des = kv_field(l, "des")
                            if des not in (None, "-") and any(not x.isdigit() for x in des.split(";")):
                                for p_ in ("C01", "C02", "C03"):
                                    self.add(p_, i, "the server sent an update message whose despawn list names an entity it does not have (garbled message): %s" % l)
                            for e_ in ([] if des in (None, "-") else [int(x) for x in des.split(";") if x.isdigit()]):
                                if e_ in view and e_ not in body:
                                    why = ("client %d is told to despawn entity %d, which the server still replicates to it at this tick and does not send again: %s" % (c, e_, l))
                                    for p_ in ("C01", "C03", "C08"):
                                        self.add(p_, i, why)
                        if f[0] == "mut":
                            for e_, comps_ in body.items():
                                a_ = acked_tick.get((sess_id.get(c), c, e_))
                                for k_ in comps_:
                                    ct_ = chg_tick.get((e_, k_))
                                    if a_ is not None and ct_ is not None and not tick_lt(a_, ct_):
                                        self.add("C11", i, "entity %d kind %d is re-sent to client %d in the mutate message of tick %d although the server had received the client's "
                                                           "acknowledgement of a message of tick %d containing the entity and the component has not changed since tick %d" % (e_, k_, c, tick_now, a_, ct_))
                            if kv_field(l, "i") is not None:
                                mut_msgs[(sess_id.get(c), c, int(kv_field(l, "i")))] = (tick_now, set(body))
                            if kv_field(l, "i") is not None and kv_field(l, "u") is not None:
                                mut_required[(sess_id.get(c), c, int(kv_field(l, "i")))] = int(kv_field(l, "u"))
                            muts_this_tick.setdefault(c, []).append(list(body))
                            self.stats["entities_in_mut"] += len(body)
                        if f[0] == "upd" and c in auth_tick_pending:
                            # first update after authorization: the complete visible state
                            if set(body) != set(view):
                                self.add("C07", i, "first update for newly authorized client %d does not carry the complete visible state: sent %r, visible %r" % (c, sorted(body), sorted(view)))
                            else:
                                for e in view:
                                    if set(body[e]) != set(view[e]):
                                        self.add("C07", i, "first update for client %d lacks components of entity %d" % (c, e))
                if ran and cfg.get("policy", "all") != "all":
                    # an entity that became visible to a client at this tick needs an update message (checked in detail above
                    # when there is one): no message at all means the entity never arrives
                    for c in sorted(authorized):
                        if c not in connected or c not in prev_view or c in auth_tick_pending:
                            continue
                        view_ = snapshots.get((epoch, tick_now, c))
                        if view_ is None:
                            continue
                        gained_ = sorted(set(view_) - set(prev_view[c]))
                        if gained_ and not any(l.startswith("upd %d " % c) for l in block):
                            self.add("C08", i, "entities %r became visible to client %d at this tick but no update message was sent to it" % (gained_, c))
                if ran:
                    for c in list(auth_tick_pending):
                        if c in authorized:
                            view = snapshots.get((epoch, tick_now, c), {})
                            got_upd = any(l.startswith("upd %d " % c) for l in block)
                            if view and not got_upd:
                                self.add("C07", i, "newly authorized client %d was not sent the visible state" % c)
                            auth_tick_pending.discard(c)
                # entities connected through the registered relationship (source replicated) are updated together
                edges = [(a_, b_) for a_, b_ in follows.items() if spec_marked.get(a_)]
                def component(x):
                    seen, todo = {x}, [x]
                    while todo:
                        y = todo.pop()
                        for a_, b_ in edges:
                            for p_, q_ in ((a_, b_), (b_, a_)):
                                if p_ == y and q_ not in seen:
                                    seen.add(q_)
                                    todo.append(q_)
                    return seen
                for c, msgs in muts_this_tick.items():
                    for mi_, m in enumerate(msgs):
                        for x in m:
                            comp = component(x)
                            for mj_, m2 in enumerate(msgs):
                                if mj_ != mi_ and any(y in comp for y in m2):
                                    self.add("C10", i, "client %d: entities %d and %r are related but travel in different mutate messages of one tick" % (c, x, [y for y in m2 if y in comp]))
                for c, msgs in muts_this_tick.items():
                    flat = [e for m in msgs for e in m]
                    if len(flat) != len(set(flat)):
                        self.add("C10", i, "an entity's mutations are split across several mutate messages of one tick (client %d)" % c)
                    if len(msgs) > 1:
                        self.stats["mut_multi"] += 1
                if silent_check_from is not None and i == len(steps) - 1:
                    # last frame of the settle phase: nothing changed, everything acknowledged
                    for l in block:
                        f = l.split()
                        if f[0] == "upd" or (f[0] == "mut" and not (cfg.get("track") == "1" and kv_field(l, "body") == "-")):
                            self.add("C11", i, "server is not silent although nothing changed and everything was acknowledged: %s" % l)
                    if cfg.get("track") == "1":
                        for c in authorized:
                            n = sum(1 for l in block if l.startswith("mut %d " % c))
                            if ran and n != 1:
                                self.add("C11", i, "with tracking exactly one (empty) mutate message per tick is expected for client %d, got %d" % (c, n))
            elif t[0] == "cframe":
                self.stats["cframes"] += 1
                c = int(t[1])
                for op in pending_cops.pop(c, []):
                    # cop ev <TY> <seq> [r<e>] : only events written while connected are for the remote server
                    cemitted[int(op[1])] = dict(ty=op[0], client=c, session=sess_id.get(c) if c in connected else None, step=i,
                                                ent=op[2] if len(op) > 2 else None)
                for pc_ in pre_dead_pending.pop(c, []):
                    pre_dead.add((c, pc_))
                just_despawned = set()
                if c in upd_applied:
                    for ds_ in upd_des.get(c, [])[upd_applied[c]:upd_delivered[c]]:
                        just_despawned |= ds_
                    upd_applied[c] = upd_delivered[c]
                got_line = [l for l in block if l.startswith("got %d " % c)]
                cli_line = [l for l in block if l.startswith("cli %d " % c)]
                if got_line and cli_line:
                    ut_now = int(kv_field(cli_line[0], "ut"))
                    for item in got_line[0].split()[2].split(","):
                        parts = item.split(":")
                        ty, sq = parts[0], int(parts[1])
                        key = (sess_id.get(c), c, sq)
                        delivered[key] = delivered.get(key, 0) + 1
                        em = emitted.get(sq)
                        if em is None:
                            self.add("C05", i, "client %d logic observed an event nobody emitted: %s" % (c, item))
                            continue
                        if delivered[key] > 1:
                            self.add("C05", i, "event %d delivered %d times to client %d" % (sq, delivered[key], c))
                        if em["connected"].get(c) != sess_id.get(c) and not quick_session.get(c):
                            why_ = ("event %d was written during %s of client %d but is handed to its game logic in its current session"
                                    % (sq, "an earlier session" if c in em["connected"] else "a time it was not connected", c))
                            self.add("C09", i, why_)
                            self.add("C05", i, why_)
                        st_ = stamps.get((c, sq))
                        if ty != "SEI" and st_ is not None and c in upd_sent and st_ in upd_sent[c] and upd_applied[c] <= upd_sent[c].index(st_):
                            self.add("C04", i, "event %d handed to client %d logic before the update message of tick %d it depends on was applied" % (sq, c, st_))
                        if ty != "SEI" and st_ is not None and (tick_lt(ut_now, st_) if upd_applied.get(c) else ut_now < st_):
                            self.add("C04", i, "event %d handed to client %d logic at update tick %d although it was sent with tick %d" % (sq, c, ut_now, st_))
                        if em["ent"] is not None and (len(parts) < 3 or parts[2] != em["ent"]):
                            self.add("C04", i, "event %d delivered to client %d with entity %s, the server meant %s" % (sq, c, parts[2] if len(parts) > 2 else None, em["ent"]))
                        if ty in ("SE0", "SEI", "SEM", "ST"):
                            prev = last_got.get((sess_id.get(c), c, ty))
                            if prev is not None and sq < prev:
                                self.add("C05", i, "events of type %s reached client %d out of sending order (%d after %d)" % (ty, c, sq, prev))
                            last_got[(sess_id.get(c), c, ty)] = sq
                for l in block:
                    if l.startswith("ack "):
                        self.stats["acks"] += 1
                        if l.split()[1] == str(c) and len(l.split()) > 2 and c in connected:
                            acks_inflight.setdefault(c, []).append([int(x_) for x_ in l.split()[2].split(",")])
                        # an acknowledgement tells the server the data was received AND applied: a message that is still
                        # waiting for its update message (required update tick ahead of the client's) must not be acknowledged
                        cl_ = [x for x in block if x.startswith("cli %d " % c)]
                        if cl_ and l.split()[1] == str(c) and len(l.split()) > 2:
                            ut_c = int(kv_field(cl_[0], "ut"))
                            for idx_ in l.split()[2].split(","):
                                req = mut_required.get((sess_id.get(c), c, int(idx_)))
                                if req is None and c in connected and not quick_session.get(c):
                                    for p_ in ("C09", "C11"):
                                        self.add(p_, i, "client %d acknowledged mutate message %s, which the server has not sent to it in this session "
                                                        "(a message buffered during an earlier session was processed)" % (c, idx_))
                                if req is not None and 0 < (req - ut_c) % 2**32 < 2**31:
                                    for p_ in ("C11", "C02"):
                                        self.add(p_, i, "client %d acknowledged mutate message %s, which requires update tick %d, while its own update tick is %d: "
                                                        "the server stops re-sending data the client has not applied" % (c, idx_, req, ut_c))
                    if l.startswith("tickrecv "):
                        for tk in l.split()[2].split(","):
                            key = (epoch, c, id(session.get(c)), int(tk))
                            tickrecv[key] = tickrecv.get(key, 0) + 1
                            if tickrecv[key] > 1:
                                self.add("C12", i, "MutateTickReceived fired twice for tick %s on client %d" % (tk, c))
                    if not l.startswith("cli "):
                        continue
                    cc, ut, ok, ents, extra, mt = parse_cli(l)
                    if c not in connected:
                        if mt not in ("-", "0/0") and frames_since_disconnect.get(c, 0) >= 1:
                            for p_ in ("C09", "C12"):
                                self.add(p_, i, "client %d has noticed the end of its session but its record of received mutate ticks is %s, not the initial one: "
                                                "the next session's ticks are measured against the old session's last tick" % (c, mt))
                        continue
                    ses = session[c]
                    if not ok:
                        self.add("C03", i, "client %d entity map is not a consistent two-way map" % c)
                    if -1 in ents:
                        for p_ in ("C03", "C01"):
                            self.add(p_, i, "client %d maps a server entity that never existed on the server: %s" % (c, ents[-1].get("bogus")))
                    if ses["extras"] is None:
                        ses["extras"] = list(extra)
                    elif len(extra) > len(ses["extras"]):
                        self.add("C03", i, "client %d has a replicated entity that no server entity maps to (zombie): %r" % (c, extra))
                        ses["extras"] = list(extra)
                    if ses["ut"] is not None and ses["ut"] != 0 and tick_lt(ut, ses["ut"]):
                        self.add("C03", i, "client %d update tick moved backwards %d -> %d" % (c, ses["ut"], ut))
                    moved = ses["ut"] != ut
                    ses["ut"] = ut
                    snap = snapshots.get((epoch, ut, c))
                    live = {e: x for e, x in ents.items() if not x.get("dead") and x.get("marker")}
                    pre_only = {e for e, x in live.items() if x.get("pre")}
                    if snap is not None and (moved or True) and c in authorized:
                        # C03: structure equals the server's structure for this client at tick `ut`
                        # entities the server pre-mapped for this client count as replicated to it even before they are visible
                        if set(live) - pre_only != set(snap) - pre_only or not (set(snap) <= set(live)):
                            self.add("C03", i, "client %d at update tick %d holds entities %r, server replicated %r at that tick" % (c, ut, sorted(live), sorted(snap)))
                        else:
                            for e in live:
                                if e in snap and set(live[e]["comps"]) != set(snap[e]):
                                    self.add("C03", i, "client %d entity %d has components %r, server had %r at tick %d" % (c, e, sorted(live[e]["comps"]), sorted(snap[e]), ut))
                    # C16: an entity the server mapped to a pre-spawned client entity lands on that entity
                    for (mc, me), pc_ in maps.items():
                        if mc != c or me not in ents or ents[me].get("dead"):
                            continue
                        tag = ents[me].get("pre")
                        if (c, pc_) not in pre_dead and tag != "p%d" % pc_ and ents[me].get("marker"):
                            self.add("C16", i, "server entity %d was mapped to client %d's pre-spawned entity %d but replication landed on %s" % (me, c, pc_, tag or "a newly spawned entity"))
                    tags = [x.get("pre") for x in ents.values() if not x.get("dead") and x.get("pre")]
                    if len(tags) != len(set(tags)):
                        self.add("C16", i, "two server entities are mapped to the same pre-spawned entity of client %d" % c)
                    for e, x in ents.items():
                        if x.get("dead"):
                            self.add("C03", i, "client %d maps server entity %d to a despawned entity" % (c, e))
                    # C02: confirmed tick truthful and monotone
                    for e, x in live.items():
                        lt = x["last"]
                        if lt is None and x.get("pre"):
                            continue      # pre-mapped, its own data has not arrived (e.g. still hidden)
                        if lt is None:
                            self.add("C03", i, "client %d entity %d is replicated but has no confirm history" % (c, e))
                            continue
                        prev = ses["last"].get(e)
                        if prev is not None and prev != 0 and tick_lt(lt, prev):
                            self.add("C02", i, "client %d entity %d confirmed tick moved backwards %d -> %d" % (c, e, prev, lt))
                        ses["last"][e] = lt
                        # C12: the per-entity history answers like a set of confirmed ticks: a tick it reported as confirmed
                        # stays confirmed while it is inside the 64-tick window (unless the entity was despawned and sent again)
                        hist_ = ses.setdefault("hist", {})
                        now_set = {(lt - b) % 2**32 for b in range(64) if (x.get("mask") or 0) >> b & 1}
                        if e in hist_ and e not in just_despawned:
                            gone = sorted(t_ for t_ in hist_[e] if (lt - t_) % 2**32 < 64 and t_ not in now_set)
                            if gone:
                                self.add("C12", i, "client %d entity %d: ticks %r were confirmed in its history and are inside the window of its last tick %d, but the history no longer contains them" % (c, e, gone, lt))
                        hist_[e] = now_set
                        s2 = snapshots.get((epoch, lt, c))
                        if s2 is None or e not in s2:
                            continue
                        ck = sorted(k for k in x["comps"] if k in EVERY_TICK)
                        sk = sorted(k for k in s2[e] if k in EVERY_TICK)
                        if ck != sk:
                            self.add("C02", i, "client %d entity %d holds the every-tick components %r but the server entity had %r at its confirmed tick %d: its state is a mixture of two ticks" % (c, e, ck, sk, lt))
                        for k, v in x["comps"].items():
                            if k in EVERY_TICK and k in s2[e]:
                                sv = s2[e][k]
                                if k == 3 and (v == "r?" or sv == "r?"):
                                    continue
                                if v != sv:
                                    self.add("C02", i, "client %d entity %d kind %d holds %s but the server had %s at its confirmed tick %d" % (c, e, k, v, sv, lt))
                    for e in list(ses["last"]):
                        if e not in live:
                            del ses["last"][e]
                            ses.get("hist", {}).pop(e, None)
                    ses["final"] = (ut, live)
        if settle_from is not None:
            last = len(steps) - 1
            for sq, em in emitted.items():
                for c, sid_ in em["connected"].items():
                    if sess_id.get(c) != sid_ or c not in connected:
                        continue          # that session ended
                    m = em["mode"]
                    intended = (m == "b") or (m[0] == "x" and int(m[1:]) != c) or (m[0] == "d" and m != "ds" and int(m[1:]) == c)
                    n = delivered.get((sid_, c, sq), 0)
                    reliable_plain = em["ty"] in ("SE0", "SEI") or (em["ty"] == "ST" and em["ent"] is None)
                    if intended and reliable_plain and (c in authorized or em["ty"] == "SEI") and n != 1:
                        # a client authorized only after the event was flushed legitimately misses it
                        if (c, sq) in stamps or em["ty"] == "SEI" or c in em.get("flush_auth", ()):
                            self.add("C05", last, "event %d (%s, mode %s) was delivered %d times to client %d, expected exactly once" % (sq, em["ty"], m, n, c))
                    if not intended and n != 0:
                        self.add("C05", last, "event %d (mode %s) reached client %d which is not a recipient" % (sq, m, c))
            for sq, ce in cemitted.items():
                n = len(cdelivered.get(sq, []))
                c = ce["client"]
                if ce["session"] is not None and sess_id.get(c) == ce["session"] and c in connected and ce["ty"] == "CE0" and n != 1:
                    self.add("C05", last, "client event %d from client %d reached server logic %d times, expected exactly once" % (sq, c, n))
                if ce["session"] is None and n != 0:
                    self.add("C05", last, "client event %d written while disconnected was put on the network" % sq)
        # convergence at the end of the settle phase (C01)
        if settle_from is not None:
            for c in sorted(authorized):
                if c not in connected or c not in session or "final" not in session[c]:
                    continue
                ut, live = session[c]["final"]
                want = last_view.get(c)
                if want is None:
                    continue
                i = len(steps) - 1
                pre_only = {e for e, x in live.items() if x.get("pre")}
                if set(live) - pre_only != set(want) - pre_only or not (set(want) <= set(live)):
                    self.add("C01", i, "after settling client %d holds entities %r, the server replicates %r to it" % (c, sorted(live), sorted(want)))
                    continue
                for e in want:
                    if set(live[e]["comps"]) != set(want[e]):
                        self.add("C01", i, "after settling client %d entity %d has components %r, server %r" % (c, e, sorted(live[e]["comps"]), sorted(want[e])))
                        continue
                    for k, v in want[e].items():
                        cv = live[e]["comps"][k]
                        if k in ONCE:
                            continue
                        if k == 3 and (int(v[1:]) if v[1:].isdigit() else -1) not in want:
                            continue      # reference to an entity this client does not hold
                        if cv != v:
                            self.add("C01", i, "after settling client %d entity %d kind %d = %s, server has %s" % (c, e, k, cv, v))
        return self.problems
