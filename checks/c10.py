"""C10 - mutations are never split across messages; size guarantees of the packing loop.
Layer 0 part: Mutations::send packing through the verif hook vs RV.Pack.Packing."""
import random
import sys
from common import *


def varint_len(v):
    n = 1
    while v >= 128:
        v >>= 7
        n += 1
    return n


def ent_size(e):
    return e[0] + varint_len(e[1]) + e[1]


def fmt_ents(es):
    return ",".join("%x:%x" % e for e in es) if es else "-"


def gen_case(rng):
    track = rng.random() < 0.4
    mtu = rng.choice([1200, 1200, 1200, 64, 100, 300, 1000, 1500, 16, 40, 5000])
    hdr_real = 1 + (1 if track else 0) + 2
    hdr_acc = 1 + (10 if track else 0) + 2
    room = max(1, mtu - hdr_acc)

    def ent():
        k = rng.random()
        eb = rng.choice([1, 2, 4, 5, 9])
        if k < 0.35:
            total = rng.choice([room, room - 1, room + 1, room // 2, room // 2 + 1, room // 2 - 1, room // 3, mtu - hdr_real, mtu - hdr_real + 1])
        elif k < 0.5:
            total = rng.choice([2 * mtu, mtu + 1, mtu, 3 * mtu + 7])
        else:
            total = rng.randrange(3, max(4, room))
        total = max(total, eb + 2)
        # total = eb + varint_len(cb) + cb  -> choose cb
        cb = total - eb - 1
        if cb >= 128:
            cb = total - eb - 2
        if cb >= 16384:
            cb = total - eb - 3
        return (eb, max(cb, 0))
    ngroups = rng.choice([0, 0, 1, 2, 3])
    related = []
    for _ in range(ngroups):
        related.append([ent() for _ in range(rng.choice([0, 1, 2, 2, 3]))])
    standalone = [ent() for _ in range(rng.choice([0, 1, 2, 2, 3, 5, 8]))]
    return track, mtu, related, standalone


def line_of(case):
    track, mtu, related, standalone = case
    rel = "|".join(fmt_ents(g) for g in related) if related else "_"
    sta = fmt_ents(standalone) if standalone else "_"
    return "split %d %x %s %s" % (1 if track else 0, mtu, rel, sta)


def oracle(case, ans):
    """Implementation-side oracle from the property text alone. Returns (problem, known_class)."""
    track, mtu, related, standalone = case
    if ans == "PANIC":
        return ("packing panicked", None) if mtu > 0 else (None, None)
    msgs = []
    if ans != "NONE":
        for m in ans.split(";"):
            ln, ids = m.split(":")
            msgs.append((int(ln, 16), [int(i, 16) for i in ids.split(",")] if ids else []))
    n = sum(len(g) for g in related) + len(standalone)
    allids = [i for _, ids in msgs for i in ids]
    if allids != list(range(n)):
        return ("entities lost, duplicated or reordered across messages: %r" % (allids,), None)
    base = 0
    for g in related:
        gids = set(range(base, base + len(g)))
        base += len(g)
        if gids and not any(gids <= set(ids) for _, ids in msgs):
            return ("a related group is split across messages", None)
    chunks = [g for g in related] + [[e] for e in standalone]
    sizes = [sum(ent_size(e) for e in c) for c in chunks]
    hdr_real = 1 + (1 if track else 0) + 2          # update tick 0, no server tick range in the hook, count < 128
    hdr_acc = 1 + (10 if track else 0) + 2
    if all(hdr_real + s <= mtu for s in sizes) and any(ln > mtu for ln, _ in msgs):
        known = "D20" if (track and not all(hdr_acc + s <= mtu for s in sizes)) else None
        return ("every chunk fits alone but a message of %d bytes exceeds max_size %d" % (max(ln for ln, _ in msgs), mtu), known)
    if hdr_real + sum(sizes) <= mtu and len(msgs) > 1:
        known = "D20" if (track and hdr_acc + sum(sizes) > mtu) else None
        return ("everything fits into one message but %d were sent" % len(msgs), known)
    return (None, None)


def run(tier, seed, replay):
    rep = Report("C10", tier, seed)
    rng = random.Random(seed)
    proofs_ok, ready = prepare(rep)
    if not ready:
        return rep.finish()
    n = 5000 if tier == "quick" else 120000
    corpus = read_corpus("C10")
    cases = [gen_case(rng) for _ in range(n)]
    lines = corpus + [line_of(c) for c in cases]
    # can_pack sweep
    cp = []
    for _ in range(n // 5):
        mtu = rng.choice([1, 2, 7, 64, 1200, 1500])
        ms = rng.choice([0, 1, mtu - 1, mtu, mtu + 1, 2 * mtu, 2 * mtu - 1, rng.randrange(0, 4 * mtu + 1)])
        add = rng.choice([0, 1, mtu - 1, mtu, mtu + 1, rng.randrange(0, 2 * mtu + 1)])
        cp.append("can_pack %x %x %x" % (ms, add, mtu))
    lines += cp
    # relation graph maintenance (RelatedEntities through the hook): same index iff connected
    glines, gexpect = [], []
    for _ in range(n // 5):
        nent = rng.choice([3, 4, 5, 7])
        edges = []
        ops = []
        for _ in range(rng.randrange(0, 14)):
            r = rng.random()
            a, b = rng.randrange(1, nent + 1), rng.randrange(1, nent + 1)
            k = rng.randrange(2)
            if rng.random() < 0.25:
                ops.append("q")             # a replication tick in between (rebuild_graphs + lookup)
            if r < 0.6:
                ops.append("a:%x:%x:%x" % (k, a, b))
                edges.append((k, a, b))
            elif r < 0.95:
                if edges and rng.random() < 0.7:
                    k, a, b = rng.choice(edges)
                    if rng.random() < 0.2:
                        a, b = b, a
                ops.append("r:%x:%x:%x" % (k, a, b))
                nodes = {x for e in edges for x in e[1:]}
                if a in nodes and b in nodes:
                    edges = [e for e in edges if e != (k, a, b)]
            else:
                ops.append("c")
                edges = []
        qs = list(range(1, nent + 1))
        parent = {x: x for x in qs}
        def find(x):
            while parent[x] != x:
                x = parent[x]
            return x
        for _, a, b in edges:
            parent[find(a)] = find(b)
        nodes = {x for e in edges for x in e[1:]}
        labels, seen = [], []
        for x in qs:
            if x not in nodes:
                labels.append("-")
            else:
                r_ = find(x)
                if r_ not in seen:
                    seen.append(r_)
                labels.append(str(seen.index(r_)))
        glines.append("graph %s %s" % (";".join(ops) or "-", ",".join("%x" % x for x in qs)))
        gexpect.append("%s count=%d" % (",".join(labels), len(seen)))
    lines += glines
    impl, model = kernel_pair(lines)
    diverged, oracle_fail = [], []
    for l, a, want in zip(glines, impl[-len(glines):] if glines else [], gexpect):
        if a != want:
            oracle_fail.append(dict(request=l, implementation=a, expected=want, why="entities connected through registered relations do not share a graph index (or unrelated ones do / the count is wrong)"))
    known_seen = {}
    nontriv = set()
    for l, a, b in zip(lines, impl, model):
        if a != b:
            diverged.append(dict(request=l, implementation=a, model=b))
    off = len(corpus)
    for c, l, a in zip(cases, lines[off:off + n], impl[off:off + n]):
        prob, known = oracle(c, a)
        if prob:
            if known:
                known_seen.setdefault(known, dict(request=l, implementation=a, why=prob))
            else:
                oracle_fail.append(dict(request=l, implementation=a, why=prob))
        if a.count(";") >= 1:
            nontriv.add(l)
    for l, a in zip(cp, impl[off + n:]):
        _, ms, add, mtu = l.split()
        ms, add, mtu = int(ms, 16), int(add, 16), int(mtu, 16)
        want = "1" if (ms % mtu > 0 and ms % mtu + add <= mtu) else "0"
        if a != want:
            oracle_fail.append(dict(request=l, implementation=a, expected=want, why="can_pack differs from its documented meaning"))
    kf = load_known()
    for f in kf["open"]:
        if f["property"] == "C10" and f["id"] == "D20":
            # replay the recorded witness on the implementation
            wl = f["witness"]
            wa = run_lines(harness_bin("kernels"), [wl])[0]
            rep.known_finding("D20", "%s | witness %s -> %s" % (f["what"], wl, wa))
    for k, v in known_seen.items():
        if not any(f["property"] == "C10" and f["id"] == k for f in kf["open"]):
            oracle_fail.append(v)
    rep.cov["evaluations"] = len(lines)
    rep.cov["traces_validated_against_impl"] = len(lines)
    rep.cov["distinct_nontrivial"] = len(nontriv)
    rep.cov["rule"] = ("synthetic entities through Mutations::send (hook mutations_split): sizes around max_size-header, half, third, oversize; 0..3 relation groups (also empty), "
                       "0..8 standalone; tracking on 40%; max_size in {16..5000}; plus a can_pack sweep. non-trivial = distinct case that produced >= 2 messages")
    rep.cov["graph_cases"] = len(glines)
    rep.cov["input_distribution"] = dict(split=n, can_pack=len(cp), corpus=len(corpus), tracked=sum(1 for c in cases if c[0]),
                                         multi_message=len(nontriv), known_class_hits={k: 1 for k in known_seen})
    rep.cov["samples"] = [dict(request=l, implementation=a, model=b) for l, a, b in list(zip(lines, impl, model))[off:off + 4]]
    rep.assumptions = ["update tick 0 (1 byte) and empty server-tick range inside the hook; the model takes both lengths as parameters",
                       "Layer 1 part of C10 (any subset of a tick's mutate messages updates entities/groups completely or not at all) is exercised by the sim correspondence, see DESIGN.md"]
    # Layer 1: small max_size so that a tick's mutations go out in several messages, arbitrary subsets/orders delivered
    import simcheck
    rc, out = build_harness(["sim"])
    if rc != 0:
        rep.violation("harness-build", dict(what="sim harness does not build", log=out[-2000:]), False)
        return rep.finish()
    kws = [dict(max_size=1, burst=0.1), dict(max_size=1, rel=True, burst=0.08, weights=dict(drop=1.5, sop=7.0)), dict(max_size=30, rel=True, weights=dict(drop=1.5)), dict(max_size=60, track=True, rel=True),
           dict(max_size=1, nclients=2, track=True), dict(max_size=1, rel=True, policy="black", nclients=2),
           dict(max_size=1, rel=True, rel_heavy=True, burst=0.15, length=90), dict(max_size=1, rel=True, rel_heavy=True, burst=0.15, length=60, nclients=2)]
    def group_scripts(rng, tier):
        """small worlds with a few relationship edges; between the ticks in which related entities are mutated together, operations
        that must not change the groups: the marker inserted again, unrelated entities spawned / despawned, a relation replaced
        by itself, visibility of unrelated entities"""
        sys.path.insert(0, os.path.join(VERIF, "gen"))
        import scripts as gen_scripts
        out = []
        for i in range(30 if tier == "quick" else 1200):
            ncl = rng.choice([1, 2])
            lines = ["cfg policy=all auth=none track=%d nclients=%d timeout=10000 rel=1" % (rng.randrange(2), ncl), "start", "sframe 0 10"]
            for c in range(ncl):
                lines.append("connect %d 1" % c)
            n = rng.randrange(3, 6)
            for e in range(1, n + 1):
                lines.append("sop spawn %d 1 0=%d 1=%d" % (e, rng.randrange(50), rng.randrange(50)))
            edges = {}
            for e in range(2, n + 1):
                if rng.random() < 0.7:
                    edges[e] = rng.randrange(1, e)
                    lines.append("sop rel %d %d" % (e, edges[e]))
            lines.append("sframe 1 16")
            for c in range(ncl):
                lines += ["deliver %d s2c 0 all" % c, "cframe %d" % c, "deliver %d c2s 0 all" % c]
            nxt = n + 1
            for _ in range(rng.randrange(2, 5)):
                k = rng.random()
                if k < 0.35:
                    lines.append("sop remark %d" % rng.randrange(1, n + 1))
                elif k < 0.5:
                    lines.append("sop spawn %d 1 0=1" % nxt)
                    nxt += 1
                elif k < 0.65 and edges:
                    e = rng.choice(sorted(edges))
                    lines.append("sop rel %d %d" % (e, edges[e]))       # replaced by itself
                if rng.random() < 0.4:
                    lines.append("sframe %d 16" % rng.randrange(2))
                for e in range(1, n + 1):
                    if rng.random() < 0.8:
                        lines.append("sop mutate %d %d=%d" % (e, rng.randrange(2), rng.randrange(100, 200)))
                lines.append("sframe 1 16")
                for c in range(ncl):
                    lines.append("%s %d s2c 1 %s" % (rng.choice(["deliver", "drop"]), c, rng.choice(["first", "last"])))
                    lines += ["cframe %d" % c, "deliver %d c2s 0 all" % c]
            meta = dict(connected=list(range(ncl)), events=False)
            sf = len(lines)
            lines += gen_scripts.settle_lines(meta)
            out.append(("groups-%d" % i, lines, sf))
        # a mutate message that arrives after the client has applied the despawn (or the loss) of one of the entities in it:
        # the other entities of the message must still be updated completely or not at all, and nothing may be corrupted
        for i in range(30 if tier == "quick" else 1200):
            pol = rng.choice(["all", "all", "black"])
            lines = ["cfg policy=%s auth=none track=%d nclients=1 timeout=10000" % (pol, rng.randrange(2)), "start", "sframe 0 10", "connect 0 1200"]
            n = rng.randrange(3, 6)
            a1, a2 = n + 1, n + 2                           # anchors: reference targets that never change
            lines.append("sop spawn %d 1 0=1" % a1)
            lines.append("sop spawn %d 1 0=2" % a2)
            for e in range(1, n + 1):
                lines.append("sop spawn %d 1 0=%d 1=%d 3=r%d" % (e, rng.randrange(50), rng.randrange(50), rng.choice([a1, a2])))
            lines += ["sframe 1 16", "deliver 0 s2c 0 all", "cframe 0", "deliver 0 c2s 0 all"]
            for e in range(1, n + 1):
                for k in (0, 1, 3):
                    if rng.random() < 0.8:
                        lines.append("sop mutate %d %d=%s" % (e, k, ("r%d" % rng.choice([a1, a2])) if k == 3 else str(rng.randrange(100, 200))))
            lines.append("sframe 1 16")                     # its mutate message is held back
            gone = rng.sample(range(1, n + 1), rng.choice([1, 1, 2]))
            for e in gone:
                lines.append(rng.choice(["sop despawn %d" % e, "sop unmark %d" % e] + (["sop vis 0 %d 0" % e] if pol == "black" else [])))
            lines.append("sframe 1 16")
            lines += ["deliver 0 s2c 0 all", "cframe 0"]   # the despawn is applied first
            lines.append("drop 0 s2c 1 last")              # the newer tick's mutate message is lost
            lines += ["deliver 0 s2c 1 all", "cframe 0", "deliver 0 c2s 0 all"]
            for _ in range(rng.randrange(1, 3)):
                lines.append("sframe 1 16")
            meta = dict(connected=[0], events=False)
            sf = len(lines)
            lines += gen_scripts.settle_lines(meta)
            out.append(("late-mutate-%d" % i, lines, sf, {"C10", "C02", "C01"}))
        return out
    o2, d2 = simcheck.sim_collect(rep, "C10", tier, rng, seed, kws, 160, 16000, oracle_props={"C10", "C02"}, custom_scripts=group_scripts,
                                  rule_extra=", tiny per-client max message sizes so that every tick's mutations are split, with mutate messages dropped and reordered, and a relationship registered with "
                                  "sync_related_entities set / replaced / cleared between entities (related entities must share a mutate message)")
    if o2 and not oracle_fail:
        f = o2[0]
        rep.violation("oracle", dict(what="implementation violates C10 on a concrete script", problem=f["problem"], script=f.get("shrunk", f["script"])), True)
        return rep.finish()
    if d2 and not (oracle_fail or diverged):
        f = d2[0]
        rep.violation("correspondence", dict(what="Layer 1 model and implementation disagree", first_divergence=f.get("shrunk_divergence", f["divergence"]), script=f.get("shrunk", f["script"])), False)
        return rep.finish()
    return conclude(rep, proofs_ok, oracle_fail, diverged, "RV.Pack.Packing (mutations_split, can_pack)")
