"""C16 - pre-spawned client entities are adopted, not duplicated."""
import sys
from common import *
from simcheck import sim_check

sys.path.insert(0, os.path.join(VERIF, "gen"))
import scripts as gen_scripts


def prespawn_scripts(rng, tier):
    """Scenarios centred on the mapping: client pre-spawns, server spawns + maps in the same frame or an earlier frame of
    the tick window, extra traffic on the same and other entities, optional client-side despawn before arrival."""
    out = []
    n = 60 if tier == "quick" else 1500
    for i in range(n):
        nclients = rng.choice([1, 2])
        lines = ["cfg policy=%s auth=none track=0 nclients=%d timeout=10000" % (rng.choice(["all", "black"]), nclients), "start", "sframe 0 10"]
        for c in range(nclients):
            lines.append("connect %d 1200" % c)
        c = rng.randrange(nclients)
        lines += ["cop %d prespawn 0" % c, "cframe %d" % c]
        pre_dead = rng.random() < 0.25
        if pre_dead and rng.random() < 0.5:
            lines += ["cop %d despawn 0" % c, "cframe %d" % c]
            pre_dead_early = True
        else:
            pre_dead_early = False
        lines.append("sop spawn 1 1 0=%d" % rng.randrange(50))           # other traffic
        lines.append("sop spawn 2 1 0=%d 1=%d" % (rng.randrange(50), rng.randrange(50)))
        lines.append("sop map %d 2 0" % c)
        if rng.random() < 0.5:
            lines.append("sframe 0 5")                                   # mapping in an earlier frame of the window
            lines.append("sop mutate 2 0=%d" % rng.randrange(50))
        if rng.random() < 0.4:
            lines.append("sop spawn 3 1 3=r2")                           # reference to the mapped entity in the same tick
        lines.append("sframe 1 16")
        if pre_dead and not pre_dead_early:
            lines += ["cop %d despawn 0" % c, "cframe %d" % c]          # despawned before the mapping arrives
        again = (not pre_dead) and rng.random() < 0.35
        if again:
            # the same mapping is registered once more (a duplicated request of the client): nothing may change
            lines += ["deliver %d s2c 0 all" % c, "cframe %d" % c, "deliver %d c2s 0 all" % c, "sop map %d 2 0" % c]
        for _ in range(rng.randrange(0, 4)):
            lines.append("sop mutate 2 1=%d" % rng.randrange(50))
            lines.append("sframe %d 16" % rng.randrange(2))
        if again:
            lines.append("sframe 1 16")
        meta = dict(connected=list(range(nclients)), events=False)
        sf = len(lines)
        lines += gen_scripts.settle_lines(meta)
        out.append(("prespawn-%d" % i, lines, sf))
    # the mapping is registered in a tick strictly before the one in which the entity becomes visible to the client
    # (the marker arrives later, or the whitelist shows it later); that earlier tick may be quiet for the client
    for i in range(n // 2):
        nclients = rng.choice([1, 2])
        white = rng.random() < 0.5
        lines = ["cfg policy=%s auth=none track=0 nclients=%d timeout=10000" % ("white" if white else rng.choice(["all", "black"]), nclients), "start", "sframe 0 10"]
        for c in range(nclients):
            lines.append("connect %d 1200" % c)
        c = rng.randrange(nclients)
        lines += ["cop %d prespawn 0" % c, "cframe %d" % c]
        other = rng.random() < 0.6
        if other:
            lines.append("sop spawn 1 1 0=%d" % rng.randrange(50))
            if white:
                lines.append("sop vis %d 1 1" % c)
            lines.append("sframe 1 16")
        lines.append("sop spawn 2 %d 0=%d 1=%d" % (1 if white else 0, rng.randrange(50), rng.randrange(50)))
        if rng.random() < 0.5:
            lines.append("sframe 1 16")
        lines.append("sop map %d 2 0" % c)
        if other and rng.random() < 0.6:
            # the message that carries the (lonely) mapping also carries a despawn record and nothing else
            lines.append(rng.choice(["sop despawn 1", "sop vis %d 1 0" % c]) if white else "sop despawn 1")
        for _ in range(rng.randrange(1, 3)):
            lines.append("sframe 1 16")
            if rng.random() < 0.3:
                lines += ["deliver %d s2c 0 all" % c, "cframe %d" % c]
        lines.append("sop vis %d 2 1" % c if white else "sop mark 2")
        lines.append("sframe 1 16")
        for _ in range(rng.randrange(0, 3)):
            lines.append("sop mutate 2 1=%d" % rng.randrange(50))
            lines.append("sframe %d 16" % rng.randrange(2))
        meta = dict(connected=list(range(nclients)), events=False)
        sf = len(lines)
        lines += gen_scripts.settle_lines(meta)
        out.append(("prespawn-early-%d" % i, lines, sf))
    # several mappings for one client travel in one update message; the client despawned one of its pre-spawned entities before the
    # message arrives: that server entity gets a fresh entity, the OTHER mappings of the message are still honoured
    for i in range(n // 3):
        nclients = rng.choice([1, 2])
        lines = ["cfg policy=%s auth=none track=0 nclients=%d timeout=10000" % (rng.choice(["all", "black"]), nclients), "start", "sframe 0 10"]
        for c in range(nclients):
            lines.append("connect %d 1200" % c)
        k = rng.choice([2, 3])
        for pc in range(k):
            lines.append("cop 0 prespawn %d" % pc)
        lines.append("cframe 0")
        for pc in range(k):
            lines.append("sop spawn %d 1 0=%d 1=%d" % (pc + 1, rng.randrange(50), rng.randrange(50)))
        order = list(range(k))
        rng.shuffle(order)
        for pc in order:
            lines.append("sop map 0 %d %d" % (pc + 1, pc))
        lines.append("sframe 1 16")
        dead = rng.sample(range(k), rng.randrange(1, k))
        for pc in dead:
            lines.append("cop 0 despawn %d" % pc)
        lines += ["cframe 0", "deliver 0 s2c 0 all", "cframe 0", "deliver 0 c2s 0 all"]
        for _ in range(rng.randrange(1, 3)):
            lines.append("sop mutate %d %d=%d" % (rng.randrange(1, k + 1), rng.randrange(2), rng.randrange(100, 200)))
            lines.append("sframe 1 16")
        meta = dict(connected=list(range(nclients)), events=False)
        sf = len(lines)
        lines += gen_scripts.settle_lines(meta)
        out.append(("prespawn-several-%d" % i, lines, sf))
    # a pre-spawned entity that was adopted for one server entity is named again by a mapping for ANOTHER server entity in the tick
    # in which the first one is despawned / hidden / un-replicated: the message's despawn record kills the client entity before its
    # mappings are applied, so the second server entity must get a fresh entity
    for i in range(n // 3):
        pol = rng.choice(["all", "black", "black"])
        nclients = rng.choice([1, 2])
        lines = ["cfg policy=%s auth=none track=0 nclients=%d timeout=10000" % (pol, nclients), "start", "sframe 0 10"]
        for c in range(nclients):
            lines.append("connect %d 1200" % c)
        lines += ["cop 0 prespawn 0", "cframe 0", "sop spawn 1 1 0=%d" % rng.randrange(50), "sop map 0 1 0", "sframe 1 16", "deliver 0 s2c 0 all", "cframe 0", "deliver 0 c2s 0 all"]
        lines.append(rng.choice(["sop despawn 1", "sop unmark 1"] + (["sop vis 0 1 0"] if pol == "black" else [])))
        lines += ["sop spawn 2 1 0=%d 1=%d" % (rng.randrange(50), rng.randrange(50)), "sop map 0 2 0"]
        if rng.random() < 0.3:
            lines.append("sframe 0 5")
        lines += ["sframe 1 16", "deliver 0 s2c 0 all", "cframe 0", "deliver 0 c2s 0 all"]
        for _ in range(rng.randrange(1, 4)):
            lines.append("sop mutate 2 %d=%d" % (rng.randrange(2), rng.randrange(100, 200)))
            lines.append("sframe 1 16")
        meta = dict(connected=list(range(nclients)), events=False)
        sf = len(lines)
        lines += gen_scripts.settle_lines(meta)
        out.append(("prespawn-reused-%d" % i, lines, sf))
    # the server entity was referenced by a component before it became visible (the client holds a placeholder for it) and is
    # then mapped to a pre-spawned entity in the tick it becomes visible.  This is the class of the open finding D17 (the
    # placeholder is orphaned, C01); the adoption itself must still work: judged by the C16 oracle only.
    for i in range(n // 3):
        white = rng.random() < 0.5
        lines = ["cfg policy=%s auth=none track=0 nclients=1 timeout=10000" % ("white" if white else "black"), "start", "sframe 0 10", "connect 0 1200"]
        lines.append("sop spawn 1 1 0=%d" % rng.randrange(50))
        if not white:
            lines.append("sop vis 0 1 0")
        lines.append("sop spawn 2 1 3=r1")
        if white:
            lines.append("sop vis 0 2 1")
        lines += ["sframe 1 16", "deliver 0 s2c 0 all", "cop 0 prespawn 0", "cframe 0"]
        if rng.random() < 0.5:
            lines += ["sop mutate 1 0=%d" % rng.randrange(50), "sframe 1 16"]
        lines += ["sop vis 0 1 1", "sop map 0 1 0", "sframe 1 16", "deliver 0 s2c 0 all", "cframe 0"]
        for _ in range(rng.randrange(1, 3)):
            lines += ["sop mutate 1 0=%d" % rng.randrange(50, 99), "sframe 1 16"]
        meta = dict(connected=[0], events=False)
        sf = len(lines)
        lines += gen_scripts.settle_lines(meta)
        out.append(("prespawn-after-reference-%d" % i, lines, sf, {"C16"}))
    return out


def marked_prespawn_scripts(rng, tier):
    """implementation only (the model's pre-spawned entities are unmarked): the client spawns its predicted entity from a bundle
    that already includes `Replicated`; the mapping must still be honoured"""
    out = []
    for i in range(20 if tier == "quick" else 600):
        nclients = rng.choice([1, 2])
        lines = ["cfg policy=%s auth=none track=0 nclients=%d timeout=10000" % (rng.choice(["all", "black"]), nclients), "start", "sframe 0 10"]
        for c in range(nclients):
            lines.append("connect %d 1200" % c)
        lines += ["cop 0 prespawnr 0", "cframe 0", "sop spawn 1 1 0=%d" % rng.randrange(50), "sop spawn 2 1 0=%d 1=%d" % (rng.randrange(50), rng.randrange(50)), "sop map 0 2 0"]
        if rng.random() < 0.4:
            lines.append("sframe 0 5")
        lines.append("sframe 1 16")
        for _ in range(rng.randrange(0, 3)):
            lines += ["sop mutate 2 1=%d" % rng.randrange(50), "sframe 1 16"]
        meta = dict(connected=list(range(nclients)), events=False)
        sf = len(lines)
        out.append(("prespawn-marked-%d" % i, lines + gen_scripts.settle_lines(meta), sf))
    return out


def run(tier, seed, replay):
    kws = [dict(weights=dict(cframe=4.0)), dict(policy="black", nclients=2)]
    return sim_check("C16", tier, seed, kws, n_quick=120, n_thorough=12000, oracle_props={"C16", "C01", "C03"}, known_ids=("D17", "D32", "D33"),
                     custom_scripts=prespawn_scripts, impl_only_scripts=marked_prespawn_scripts,
                     impl_only_label="a pre-spawned client entity that already carries the Replicated marker",
                     rule_extra=", plus scenarios centred on a pre-spawn mapping issued in the same or an earlier frame of the tick in which the entity becomes visible, with client-side despawn of the pre-spawned entity before arrival")
