"""C14 - protocol hash: byte stream injectivity, FNV step bijectivity, determinism, single-edit separation."""
import random
from common import *

PAYLOAD_FREE = [1, 2, 3, 4, 5, 6, 7]


def fmt(seq, names):
    return ",".join("%x:%x:%x:%s" % (p, prio, idx, names[idx]) for p, prio, idx in seq) or "-"


def gen_seq(rng, npool):
    seq = []
    for _ in range(rng.randrange(0, 9)):
        part = rng.choice([0, 0, 0, 1, 2, 3, 4, 5, 6, 7])
        prio = rng.choice([0, 1, 2, 3, 15, 255, 256, 65535, 2**32, 2**63]) if part == 0 else 0
        seq.append((part, prio, rng.randrange(npool)))
    return seq


def edits(rng, seq, npool):
    out = []
    for i in range(len(seq) - 1):
        if seq[i] != seq[i + 1]:
            s = list(seq)
            s[i], s[i + 1] = s[i + 1], s[i]
            out.append(("swap", s))
    for i in range(len(seq) + 1):
        out.append(("insert", seq[:i] + [(rng.choice(PAYLOAD_FREE), 0, rng.randrange(npool))] + seq[i:]))
    for i in range(len(seq)):
        out.append(("delete", seq[:i] + seq[i + 1:]))
        p, prio, idx = seq[i]
        np = rng.choice([x for x in range(8) if x != p])
        out.append(("kind", seq[:i] + [(np, prio if np == 0 else 0, idx)] + seq[i + 1:]))
        if p == 0:
            out.append(("priority", seq[:i] + [(0, prio ^ (1 << rng.randrange(0, 64)), idx)] + seq[i + 1:]))
        out.append(("type", seq[:i] + [(p, prio, (idx + 1 + rng.randrange(npool - 1)) % npool)] + seq[i + 1:]))
    return [(k, s) for k, s in out if s != seq]


def run(tier, seed, replay):
    rep = Report("C14", tier, seed)
    rng = random.Random(seed)
    proofs_ok, ready = prepare(rep)
    if not ready:
        return rep.finish()
    names = run_lines(harness_bin("kernels"), ["proto_names"])[0].split(",")
    npool = len(names)
    nbase = 150 if tier == "quick" else 2500
    lines, meta = [], []
    for l in read_corpus("C14"):
        lines.append(l)
        meta.append(("corpus", None))
    for b in range(nbase):
        seq = gen_seq(rng, npool)
        base_line = "proto " + fmt(seq, names)
        lines.append(base_line)
        meta.append(("base", b))
        lines.append(base_line)          # same registrations again: determinism
        meta.append(("again", b))
        for kind, s in edits(rng, seq, npool):
            lines.append("proto " + fmt(s, names))
            meta.append((kind, b))
    # the same through real apps: registrations made with the public App API (RepliconPlugins under the default protocol check)
    ITEMS = ["r0", "r1", "r2", "p0:2", "p1:5", "b01", "b10", "b12", "b012", "ce0", "ce1", "ct0", "se0", "se1", "st0", "ie0", "it1"]
    app_lines, app_meta = [], []
    napp = 25 if tier == "quick" else 300
    for b in range(napp):
        seq = []
        used = set()
        for _ in range(rng.randrange(0, 6)):
            it = rng.choice(ITEMS)
            # an event type can be registered only once per direction; components may repeat in different rules
            key = it[:2] + it[2:3] if it[0] in "csi" else None
            evkey = ("c" if it[0] == "c" else "s") + it[-1] if it[0] in "csi" else None
            if evkey and evkey in used:
                continue
            if evkey:
                used.add(evkey)
            seq.append(it)
        app_lines.append("proto_app " + (",".join(seq) or "-"))
        app_meta.append(("base", b, seq))
        app_lines.append("proto_app " + (",".join(seq) or "-"))
        app_meta.append(("again", b, seq))
        for i in range(len(seq) - 1):
            if seq[i] != seq[i + 1]:
                s2 = list(seq)
                s2[i], s2[i + 1] = s2[i + 1], s2[i]
                app_lines.append("proto_app " + ",".join(s2))
                app_meta.append(("swap", b, s2))
        for i in range(len(seq)):
            s2 = seq[:i] + seq[i + 1:]
            app_lines.append("proto_app " + (",".join(s2) or "-"))
            app_meta.append(("delete", b, s2))
        for i in range(len(seq)):
            it = seq[i]
            if it.startswith("p"):
                base, pr = it.split(":")
                s2 = seq[:i] + ["%s:%d" % (base, int(pr) + 1)] + seq[i + 1:]
            elif it.startswith("r"):
                s2 = seq[:i] + ["p%s:%d" % (it[1:], rng.choice([2, 3, 7]))] + seq[i + 1:]      # the default priority of a single rule is 1
            else:
                continue
            app_lines.append("proto_app " + ",".join(s2))
            app_meta.append(("priority", b, s2))
        TOGGLE = {"se": "ie", "ie": "se", "st": "it", "it": "st"}
        for i in range(len(seq)):
            if seq[i][:2] in TOGGLE:
                s2 = seq[:i] + [TOGGLE[seq[i][:2]] + seq[i][2:]] + seq[i + 1:]
                app_lines.append("proto_app " + ",".join(s2))
                app_meta.append(("independence-toggle", b, s2))
        KIND = {"se": "st", "st": "se", "ce": "ct", "ct": "ce", "ie": "it", "it": "ie"}      # the same type at the same position, event <-> trigger
        for i in range(len(seq)):
            if seq[i][:2] in KIND:
                s2 = seq[:i] + [KIND[seq[i][:2]] + seq[i][2:]] + seq[i + 1:]
                app_lines.append("proto_app " + ",".join(s2))
                app_meta.append(("event-trigger-kind", b, s2))
    # a registration made AFTER the hash was computed (a later plugin's `finish`): it must be refused (the app panics at build
    # time) - if it is accepted, the effective protocol differs from the one the hash vouches for
    late_lines = ["proto_app " + ",".join(seq + ["late"]) for (k, bi, seq) in app_meta if k == "base"][:12]
    late_out = run_lines(harness_bin("kernels"), late_lines) if late_lines else []
    late_fail = [dict(request=l, implementation=o, why="a replication rule registered after the protocol hash was computed is accepted: the hash no longer covers the protocol the app "
                      "replicates with, so a client without that rule is authorized") for l, o in zip(late_lines, late_out) if "late-accepted" in o]
    app_out = run_lines(harness_bin("kernels"), app_lines, shards=8) if app_lines else []
    app_model_lines = ["proto " + (o.split(" ", 1)[1] if " " in o else "-") for o in app_out]
    app_model = run_lines(os.path.join(OCAML, "driver"), app_model_lines, shards=8) if app_lines else []
    impl, model = kernel_pair(lines, shards=8)
    diverged, oracle_fail, nontriv = [], list(late_fail), set()
    app_base = {}
    for l, o, m, (k, bi, seq) in zip(app_lines, app_out, app_model, app_meta):
        h = o.split(" ", 1)[0]
        if h != m:
            diverged.append(dict(request=l, implementation=h, model=m, note="hash of a real App vs model hash of the same registration stream"))
        if k == "base":
            app_base[bi] = (h, l)
        elif k == "again":
            if h != app_base[bi][0]:
                oracle_fail.append(dict(request=l, implementation=h, first=app_base[bi][0], why="two apps performing the same registrations computed different protocol hashes"))
        elif h == app_base[bi][0]:
            oracle_fail.append(dict(base=app_base[bi][1], edited=l, edit=k, implementation=h, why="apps whose registration sequences differ computed the same protocol hash"))
    base_hash = {}
    kinds = {}
    for l, a, b, (k, bi) in zip(lines, impl, model, meta):
        if a != b:
            diverged.append(dict(request=l[:400], implementation=a, model=b))
        kinds[k] = kinds.get(k, 0) + 1
        if k == "base":
            base_hash[bi] = (a, l)
        elif k == "again":
            if a != base_hash[bi][0]:
                oracle_fail.append(dict(request=l[:400], implementation=a, first=base_hash[bi][0], why="same registration sequence hashed twice gives different protocol hashes"))
        elif k != "corpus":
            if a == base_hash[bi][0] or a in ("PANIC", "<missing>") or a.startswith("NAME"):
                oracle_fail.append(dict(base=base_hash[bi][1][:400], edited=l[:400], edit=k, implementation=a, why="a single-step edit of the registration sequence left the protocol hash unchanged (or the hasher failed)"))
            nontriv.add(l)
    rep.cov["evaluations"] = len(lines) + len(app_lines)
    rep.cov["real_app_registrations"] = len(app_lines)
    rep.cov["traces_validated_against_impl"] = len(lines) + len(app_lines)
    rep.cov["distinct_nontrivial"] = len(nontriv)
    rep.cov["rule"] = ("registration sequences (0..8 items over the 8 ProtocolPart kinds, priorities at byte boundaries, a pool of %d type names incl. generic and std types) fed to the real "
                       "ProtocolHasher entry points through the hook; each base sequence hashed twice; every single-step edit (swap, insert, delete, kind, priority bit, type) must change "
                       "the real hash; the model recomputes every hash bit for bit from the type-name bytes. non-trivial = distinct edited sequence" % npool)
    rep.cov["input_distribution"] = kinds
    rep.cov["samples"] = [dict(request=l[:200], implementation=a, model=b) for l, a, b in list(zip(lines, impl, model))[:3]]
    rep.assumptions = ["NOT proved and not provable: global collision-freeness of 64-bit FNV-1a; the theorem C14_hash_differs_under_no_collision_assumption carries it as an explicit premise",
                       "type names come from core::any::type_name of the build under test; add_custom bytes are outside the model",
                       "handshake (authorized iff hashes equal, mismatch notification + disconnect request) is proved on the check_protocol model and exercised end to end in the sim runs"]
    # the handshake on whole apps (default authorization method): exactly the clients whose hash matches are authorized
    import simcheck
    rc, out = build_harness(["sim"])
    # the hash is sent exactly once per connection: the channel it is declared on must be reliable.  If it is not, a legal backend
    # may lose it: demonstrate on the real apps by dropping it (a drop on a reliable channel would not be a legal schedule)
    kinds = run_lines(harness_bin("kernels"), ["chan_kinds"])[0]
    rep.cov["declared_channel_kinds"] = kinds
    ckinds = kinds.split(";")[0].split("=")[1].split(",") if kinds.startswith("C=") else []
    if rc == 0 and len(ckinds) > 1 and ckinds[1] == "Unreliable" and not oracle_fail:
        import simlib
        demo = ["cfg policy=all auth=proto track=0 nclients=1 timeout=10000", "start", "sframe 0 10", "connect 0 1200", "cframe 0", "drop 0 c2s 1 all", "sop spawn 1 1 0=1"]
        for _ in range(6):
            demo += ["sframe 1 16", "deliver 0 s2c 0 all", "deliver 0 s2c 1 all", "deliver 0 s2c 2 all", "cframe 0", "deliver 0 c2s 0 all", "deliver 0 c2s 1 all"]
        blocks = simlib.run_impl(demo)
        if not any(l.startswith("authorized 0") for b in blocks for l in b):
            oracle_fail.append(dict(request="\n".join(demo), implementation="the client is never authorized",
                                    why="the protocol hash is declared on an UNRELIABLE channel (%s) and sent only once: its loss (dropped here, a legal schedule for that channel kind) leaves a client with the SAME protocol unauthorized for good" % kinds))
    if rc == 0:
        kws = [dict(auth="proto", nclients=2, events=True), dict(auth="proto", nclients=3, sessions=True, weights=dict(session=0.5)), dict(auth="proto", nclients=2, policy="white")]
        o2, d2 = simcheck.sim_collect(rep, "C14", tier, rng, seed, kws, 60, 6000, oracle_props={"C14"},
                                      rule_extra=", AuthMethod::ProtocolCheck with one client built with an extra registration (different hash), a Connecting phase before Connected in some connections, "
                                                 "hash messages delivered late, lost with the connection, or followed by an immediate disconnect")
        if o2 and not oracle_fail:
            f = o2[0]
            rep.violation("oracle", dict(what="implementation violates C14 on a concrete script", problem=f["problem"], script=f.get("shrunk", f["script"])), True)
            return rep.finish()
        if d2 and not (oracle_fail or diverged):
            f = d2[0]
            rep.violation("correspondence", dict(what="Layer 1 model and implementation disagree", first_divergence=f.get("shrunk_divergence", f["divergence"]), script=f.get("shrunk", f["script"])), False)
            return rep.finish()
    return conclude(rep, proofs_ok, oracle_fail, diverged, "RV.Hash.{Fnv,Protocol}")
