"""C03 - structural changes reach clients atomically and in server order."""
from simcheck import sim_check


def hierarchy_scripts(rng, tier):
    import os, sys
    from common import VERIF
    sys.path.insert(0, os.path.join(VERIF, "gen"))
    import hier
    out = []
    for i in range(60 if tier == "quick" else 3000):
        lines, sf = hier.gen_hier(rng)
        out.append(("hier-%d" % i, lines, sf))
    import special
    out += special.marker_scripts(rng, 40 if tier == "quick" else 1500)
    return out


def special_scripts(rng, tier):
    import os, sys
    from common import VERIF
    sys.path.insert(0, os.path.join(VERIF, "gen"))
    import special
    return special.ref_retarget_scripts(rng, 30 if tier == "quick" else 1500) + special.multi_frame_removal_scripts(rng, 30 if tier == "quick" else 1500) + special.away_scripts(rng, 20 if tier == "quick" else 1000)


def run(tier, seed, replay):
    kws = [dict(weights=dict(sop=8.0)), dict(policy="black", weights=dict(sop=7.0)), dict(policy="white"), dict(nclients=3, weights=dict(sop=7.0, sframe=2.0)), dict(sessions=True, weights=dict(sop=7.0, session=0.6))]
    return sim_check("C03", tier, seed, kws, n_quick=240, n_thorough=24000, oracle_props={"C03"}, known_ids=("D16", "D16b", "D16c", "D19"), impl_only_scripts=hierarchy_scripts, custom_scripts=special_scripts,
                     rule_extra=", implementation-only scripts with a replicated ChildOf hierarchy outside the D16 class, several structural operations on one entity inside one tick window spread over frames, visibility changes combined with despawns and removals, references to later-spawned entities",
                     extra_assumptions=["structure = held entities, component kind sets, marker, two-way map; entities the server pre-mapped for a client count as replicated to it"])
