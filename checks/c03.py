"""C03 - structural changes reach clients atomically and in server order."""
from simcheck import sim_check


def run(tier, seed, replay):
    kws = [dict(weights=dict(sop=8.0)), dict(policy="black", weights=dict(sop=7.0)), dict(policy="white"), dict(nclients=3, weights=dict(sop=7.0, sframe=2.0))]
    return sim_check("C03", tier, seed, kws, n_quick=240, n_thorough=24000, oracle_props={"C03"}, known_ids=("D19",),
                     rule_extra=", several structural operations on one entity inside one tick window spread over frames, visibility changes combined with despawns and removals, references to later-spawned entities",
                     extra_assumptions=["structure = held entities, component kind sets, marker, two-way map; entities the server pre-mapped for a client count as replicated to it"])
