"""C11 - acknowledged data is not re-sent and an idle server is silent."""
from simcheck import sim_check


def late_ack_scripts(rng, tier):
    """several entities mutated in one tick travel in ONE mutate message; its acknowledgement is held back while one of them is
    despawned / hidden and the next tick's mutate message is lost; when the acknowledgement finally arrives the other entities of
    that message count as acknowledged: nothing of theirs may be sent again"""
    import os, sys
    from common import VERIF
    sys.path.insert(0, os.path.join(VERIF, "gen"))
    import scripts as gen_scripts
    out = []
    for i in range(30 if tier == "quick" else 1200):
        pol = rng.choice(["all", "all", "black"])
        lines = ["cfg policy=%s auth=none track=%d nclients=1 timeout=10000" % (pol, rng.randrange(2)), "start", "sframe 0 10", "connect 0 1200"]
        nent = rng.randrange(2, 5)
        alive = list(range(1, nent + 1))
        for e in alive:
            lines.append("sop spawn %d 1 0=%d 1=%d" % (e, rng.randrange(50), rng.randrange(50)))
        lines += ["sframe 1 16", "deliver 0 s2c 0 all", "cframe 0", "deliver 0 c2s 0 all"]
        val = 100
        for _ in range(rng.randrange(1, 3)):
            if len(alive) < 2:
                break
            for e in alive:
                val += 1
                lines.append("sop mutate %d %d=%d" % (e, rng.randrange(2), val))
            lines += ["sframe 1 16", "deliver 0 s2c 0 all", "deliver 0 s2c 1 all", "cframe 0"]      # applied; the ack waits
            victim = rng.choice(alive)
            alive.remove(victim)
            lines.append(rng.choice(["sop despawn %d" % victim, "sop unmark %d" % victim] + (["sop vis 0 %d 0" % victim] if pol == "black" else [])))
            lines += ["sframe 1 16", "drop 0 s2c 1 all", "deliver 0 s2c 0 all", "cframe 0"]
            lines += ["deliver 0 c2s 0 all", "sframe 1 16", "deliver 0 s2c 0 all", "deliver 0 s2c 1 all", "cframe 0", "deliver 0 c2s 0 all"]
        meta = dict(connected=[0], events=False)
        sf = len(lines)
        out.append(("late-ack-%d" % i, lines + gen_scripts.settle_lines(meta), sf))
    return out


def run(tier, seed, replay):
    kws = [dict(burst=0.1, max_size=1), dict(burst=0.08, max_size=30, nclients=2), dict(track=True), dict(weights=dict(drop=2.0, deliver=3.0)), dict(nclients=3, max_size=30), dict(rel=True), dict(rel=True, max_size=1, nclients=2),
           dict(burst=0.1, max_size=1, timeout=40, quiet_tail=0.8), dict(burst=0.1, max_size=30, timeout=60, nclients=2, weights=dict(drop=2.0), quiet_tail=0.8), dict(timeout=100, track=True, max_size=1, quiet_tail=0.8),
           dict(max_size=1, quiet_tail=1.0, length=25), dict(max_size=1, quiet_tail=1.0, length=40, nclients=2, policy="all")]
    return sim_check("C11", tier, seed, kws, n_quick=200, n_thorough=20000, oracle_props={"C11", "C01"}, custom_scripts=late_ack_scripts,
                     rule_extra=", acknowledgements delayed or held back, mutate messages dropped; the last settle tick must be silent (exactly one empty message per client with tracking)",
                     extra_assumptions=["acknowledgement timeouts: some scenarios run with mutations_timeout of 40-100 ms against frame times of 0-50 ms, so in-flight records expire before their acknowledgement; whether the repeating timer of cleanup_acks fires in a frame is an oracle input of the model, taken from a mirror of the same Timer in the harness",
                                        "relation graphs (sync_related_entities) are part of the pool: an idle server with registered graphs must stay silent (D07 regression)"])
