"""C11 - acknowledged data is not re-sent and an idle server is silent."""
from simcheck import sim_check


def run(tier, seed, replay):
    kws = [dict(burst=0.1, max_size=1), dict(burst=0.08, max_size=30, nclients=2), dict(track=True), dict(weights=dict(drop=2.0, deliver=3.0)), dict(nclients=3, max_size=30), dict(rel=True), dict(rel=True, max_size=1, nclients=2)]
    return sim_check("C11", tier, seed, kws, n_quick=200, n_thorough=20000, oracle_props={"C11", "C01"},
                     rule_extra=", acknowledgements delayed or held back, mutate messages dropped; the last settle tick must be silent (exactly one empty message per client with tracking)",
                     extra_assumptions=["acknowledgement timeouts (cleanup_acks) are covered by the theorem C11_late_ack_after_cleanup_is_junk; the wall-clock timer itself is not driven by the scripts",
                                        "relation graphs (sync_related_entities) are part of the pool: an idle server with registered graphs must stay silent (D07 regression)"])
