"""C11 - acknowledged data is not re-sent and an idle server is silent."""
from simcheck import sim_check


def run(tier, seed, replay):
    kws = [dict(burst=0.1, max_size=1), dict(burst=0.08, max_size=30, nclients=2), dict(track=True), dict(weights=dict(drop=2.0, deliver=3.0)), dict(nclients=3, max_size=30), dict(rel=True), dict(rel=True, max_size=1, nclients=2),
           dict(burst=0.1, max_size=1, timeout=40, quiet_tail=0.8), dict(burst=0.1, max_size=30, timeout=60, nclients=2, weights=dict(drop=2.0), quiet_tail=0.8), dict(timeout=100, track=True, max_size=1, quiet_tail=0.8),
           dict(max_size=1, quiet_tail=1.0, length=25), dict(max_size=1, quiet_tail=1.0, length=40, nclients=2, policy="all")]
    return sim_check("C11", tier, seed, kws, n_quick=200, n_thorough=20000, oracle_props={"C11", "C01"},
                     rule_extra=", acknowledgements delayed or held back, mutate messages dropped; the last settle tick must be silent (exactly one empty message per client with tracking)",
                     extra_assumptions=["acknowledgement timeouts: some scenarios run with mutations_timeout of 40-100 ms against frame times of 0-50 ms, so in-flight records expire before their acknowledgement; whether the repeating timer of cleanup_acks fires in a frame is an oracle input of the model, taken from a mirror of the same Timer in the harness",
                                        "relation graphs (sync_related_entities) are part of the pool: an idle server with registered graphs must stay silent (D07 regression)"])
