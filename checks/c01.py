"""C01 - every client converges to the server state under any legal network schedule."""
from simcheck import sim_check


def run(tier, seed, replay):
    kws = [dict(burst=0.08), dict(burst=0.08, max_size=1), dict(sessions=True), dict(nclients=3, length=90), dict(max_size=1), dict(policy="black"), dict(policy="white", auth="custom"),
           dict(max_size=1, quiet_tail=1.0, length=25), dict(max_size=30, quiet_tail=1.0, nclients=2, timeout=60), dict(auth="proto", nclients=2)]
    return sim_check("C01", tier, seed, kws, n_quick=240, n_thorough=24000,
                     oracle_props={"C01"}, known_ids=("D02", "D17", "D19", "D25"),
                     extra_assumptions=["convergence itself is NOT proved as a theorem (see Properties/C01.v): it is decided here by model/implementation correspondence plus the "
                                        "implementation-side convergence oracle after a lossless settle phase; the Coq part proves the refutations on the known-finding witnesses and the "
                                        "ingredient lemmas listed in DESIGN.md"])
