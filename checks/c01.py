"""C01 - every client converges to the server state under any legal network schedule."""
from simcheck import sim_check


def hierarchy_scripts(rng, tier):
    import os, sys
    from common import VERIF
    sys.path.insert(0, os.path.join(VERIF, "gen"))
    import hier
    out = []
    for i in range(60 if tier == "quick" else 3000):
        lines, sf = hier.gen_hier(rng)
        out.append(("hier-%d" % i, lines, sf))
    # a server that has been up for a long time: ordinary scripts started at a large tick (the encoded ticks get wider);
    # the 2^32 wrap itself is exercised under C12
    import scripts as gen_scripts
    for i in range(20 if tier == "quick" else 600):
        lines, meta = gen_scripts.gen_script(rng, late_join=rng.random() < 0.5, max_size=rng.choice([None, 1, 60]), burst=0.1, length=rng.choice([25, 40]))
        lines[0] += " tick0=%d" % rng.choice([2**7 - 2, 2**14 - 3, 2**21 - 2, 2**28 - 3, 2**28 + 7, 2**30 + 11])
        sf = len(lines)
        out.append(("long-uptime-%d" % i, lines + gen_scripts.settle_lines(meta), sf))
    import special
    out += special.marker_scripts(rng, 30 if tier == "quick" else 1200)
    return out


def special_scripts(rng, tier):
    import os, sys
    from common import VERIF
    sys.path.insert(0, os.path.join(VERIF, "gen"))
    import special
    return special.ref_retarget_scripts(rng, 30 if tier == "quick" else 1500) + special.multi_frame_removal_scripts(rng, 30 if tier == "quick" else 1500) + special.away_scripts(rng, 20 if tier == "quick" else 1000)


def run(tier, seed, replay):
    kws = [dict(burst=0.08), dict(burst=0.08, max_size=1), dict(sessions=True), dict(nclients=3, length=90), dict(max_size=1), dict(policy="black"), dict(policy="white", auth="custom"),
           dict(max_size=1, quiet_tail=1.0, length=25), dict(max_size=30, quiet_tail=1.0, nclients=2, timeout=60), dict(auth="proto", nclients=2)]
    return sim_check("C01", tier, seed, kws, n_quick=240, n_thorough=24000,
                     oracle_props={"C01"}, known_ids=("D02", "D16", "D16b", "D16c", "D17", "D19", "D25", "D31"), impl_only_scripts=hierarchy_scripts, custom_scripts=special_scripts,
                     rule_extra=", plus implementation-only scripts with a replicated ChildOf hierarchy (attach, re-parent, detach, recursive despawns, hide/un-replicate) outside the D16 class",
                     extra_assumptions=["convergence itself is NOT proved as a theorem (see Properties/C01.v): it is decided here by model/implementation correspondence plus the "
                                        "implementation-side convergence oracle after a lossless settle phase; the Coq part proves the refutations on the known-finding witnesses and the "
                                        "ingredient lemmas listed in DESIGN.md"])
