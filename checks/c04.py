"""C04 - server events never outrun the replication they depend on."""
from simcheck import sim_check


def run(tier, seed, replay):
    kws = [dict(events=True, weights=dict(sev=4.0, edeliver=5.0, deliver=2.0)), dict(events=True, nclients=3, auth="custom"), dict(events=True, policy="black"), dict(events=True, weights=dict(sev=3.0, sop=6.0))]
    return sim_check("C04", tier, seed, kws, n_quick=240, n_thorough=24000, oracle_props={"C04"}, known_ids=("D19",),
                     rule_extra=", server events of every kind (ordered, independent, mapped, unreliable, triggers with targets) emitted in arbitrary frames with event channels delayed independently of the update channel",
                     extra_assumptions=["'withheld' is read as 'not delivered': a ready event whose entity cannot be resolved on the client is dropped, not retried (C04_references_resolve_or_dropped)"],
                     model_name="RV.Repl.Sys + RV.Events.Remote")
