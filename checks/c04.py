"""C04 - server events never outrun the replication they depend on."""
import os
import sys
from common import VERIF
from simcheck import sim_check

sys.path.insert(0, os.path.join(VERIF, "gen"))
import scripts as gen_scripts


def mixed_tick_scripts(rng, tier):
    """three or more recipients of one buffered event whose last update ticks differ (some saw this tick's spawn, others did not -
    visibility): every recipient's copy must carry ITS OWN update tick, whatever order the server serves them in; then the event
    channel overtakes the update channel"""
    out = []
    for i in range(30 if tier == "quick" else 1200):
        lines = ["cfg policy=white auth=none track=0 nclients=3 timeout=10000", "start", "sframe 0 10"]
        order = [0, 1, 2]
        rng.shuffle(order)
        for c in order:
            lines.append("connect %d 1200" % c)
        lines.append("sop spawn 1 1 0=1")
        for c in range(3):
            lines.append("sop vis %d 1 1" % c)
        lines.append("sframe 1 16")
        for c in range(3):
            lines += ["deliver %d s2c 0 all" % c, "cframe %d" % c]
        seq, ent = 0, 2
        for _ in range(rng.randrange(1, 4)):
            see = [c for c in range(3) if rng.random() < 0.6]
            lines.append("sop spawn %d 1 0=%d" % (ent, rng.randrange(50)))
            for c in see:
                lines.append("sop vis %d %d 1" % (c, ent))
            ent += 1
            for _ in range(rng.randrange(1, 3)):
                seq += 1
                lines.append("sop ev %s %s %d" % (rng.choice(["SE0", "ST", "SE0"]), rng.choice(["b", "b", "x0", "x1"]), seq))
            lines.append("sframe 1 16")
            for c in range(3):
                if rng.random() < 0.7:
                    lines += ["deliver %d s2c 2 all" % c, "deliver %d s2c 6 all" % c, "cframe %d" % c]      # events first
                if rng.random() < 0.6:
                    lines += ["deliver %d s2c 0 all" % c, "cframe %d" % c]
        meta = dict(connected=[0, 1, 2], events=True)
        sf = len(lines)
        lines += gen_scripts.settle_lines(meta)
        out.append(("mixed-ticks-%d" % i, lines, sf))
    return out


def mapped_trigger_scripts(rng, tier):
    """implementation only (the model has no trigger with a mapped payload): a server trigger registered with
    add_mapped_server_trigger whose payload entity is known to the client while its TARGET is not (hidden, never replicated, or
    despawned in the trigger's tick): the trigger must be withheld, never delivered with an unresolved target"""
    out = []
    for i in range(30 if tier == "quick" else 1000):
        pol = rng.choice(["black", "black", "all"])
        lines = ["cfg policy=%s auth=none track=0 nclients=1 timeout=10000" % pol, "start", "sframe 0 10", "connect 0 1200"]
        lines += ["sop spawn 1 1 0=1", "sop spawn 2 1 0=2", "sop spawn 3 0 0=3"]          # 3 is never replicated
        lines += ["sframe 1 16", "deliver 0 s2c 0 all", "cframe 0", "deliver 0 c2s 0 all"]
        seq = 0
        for _ in range(rng.randrange(1, 4)):
            k = rng.random()
            seq += 1
            if k < 0.35 and pol == "black":
                lines += ["sop vis 0 2 0", "sop ev STM b %d r2" % seq]                       # target hidden in the trigger's tick
            elif k < 0.6:
                lines.append("sop ev STM b %d r3" % seq)                                     # target never replicated
            elif k < 0.8:
                lines += ["sop spawn %d 1 0=9" % (10 + seq), "sop ev STM b %d r%d" % (seq, 10 + seq), "sop despawn %d" % (10 + seq)]
            else:
                lines.append("sop ev STM b %d r1" % seq)                                     # resolvable: must arrive with its target
            lines.append("sframe 1 16")
            lines += ["deliver 0 s2c 0 all", "deliver 0 s2c 7 all", "cframe 0", "deliver 0 c2s 0 all"]
        lines += ["sframe 1 16", "deliver 0 s2c 0 all", "deliver 0 s2c 7 all", "cframe 0"]
        out.append(("mapped-trigger-%d" % i, lines, None))
    return out


def greeting_scripts(rng, tier):
    """the server app has been running frames while the server was stopped (idle before its start, or between a stop and a
    start); a client is authorized and greeted with events that depend on entities spawned in the very first running frame, which
    is not a tick: the events must wait for the tick that replicates those entities"""
    out = []
    for i in range(24 if tier == "quick" else 800):
        lines = ["cfg policy=all auth=none track=0 nclients=2 timeout=10000", "sframe 0 10"]
        if rng.random() < 0.5:
            # an earlier session, ended by a stop
            lines += ["start", "sframe 0 10", "connect 1 1200", "sop spawn 9 1 0=1", "sframe 1 16", "deliver 1 s2c 0 all", "cframe 1", "deliver 1 c2s 0 all",
                      "stop", "disconnect 1", "cframe 1"]
            for _ in range(rng.randrange(1, 3)):
                lines.append("sframe %d 10" % rng.randrange(2))
        lines += ["start", "connect 0 1200"]
        seq, ent = 0, 1
        for _ in range(rng.randrange(1, 3)):
            lines.append("sop spawn %d 1 0=%d" % (ent, rng.randrange(50)))
            seq += 1
            lines.append("sop ev %s d0 %d%s" % (rng.choice(["SE0", "SEM", "ST"]), seq, ""))
            if lines[-1].split()[2] == "SEM":
                lines[-1] += " r%d" % ent
            ent += 1
        lines.append("sframe 0 10")                      # the first running frame: no tick
        for _ in range(rng.randrange(1, 3)):
            lines += ["deliver 0 s2c 2 all", "deliver 0 s2c 4 all", "deliver 0 s2c 6 all", "cframe 0"]
        lines += ["sframe 1 16", "deliver 0 s2c 2 all", "deliver 0 s2c 4 all", "deliver 0 s2c 6 all", "cframe 0", "deliver 0 s2c 0 all", "cframe 0", "deliver 0 c2s 0 all"]
        meta = dict(connected=[0], events=True)
        sf = len(lines)
        out.append(("greeting-%d" % i, lines + gen_scripts.settle_lines(meta), sf))
    return out


def wrap_event_scripts(rng, tier):
    """implementation only (the Layer 1 model starts at tick 0): a long-running server whose tick crosses 2^32 while events
    overtake the update messages of their ticks: an event stamped with a small post-wrap tick must wait although the client's
    update tick is a large pre-wrap number"""
    out = []
    for i in range(24 if tier == "quick" else 800):
        ncl = rng.choice([1, 2])
        t0 = 2**32 - rng.randrange(2, 9)
        lines = ["cfg policy=all auth=none track=0 nclients=%d timeout=10000 tick0=%d" % (ncl, t0), "start", "sframe 0 10"]
        for c in range(ncl):
            lines.append("connect %d 1200" % c)
        lines.append("sop spawn 1 1 0=1")
        lines.append("sframe 1 16")
        for c in range(ncl):
            lines += ["deliver %d s2c 0 all" % c, "cframe %d" % c, "deliver %d c2s 0 all" % c]
        seq, ent = 0, 2
        for _ in range(rng.randrange(5, 14)):
            if rng.random() < 0.7:
                lines.append("sop spawn %d 1 0=%d" % (ent, rng.randrange(50)))
                ent += 1
            for _ in range(rng.choice([0, 1, 1, 2])):
                seq += 1
                ty = rng.choice(["SE0", "SEM", "ST", "SE0"])
                ref = " r%d" % rng.randrange(1, ent) if ty == "SEM" or (ty == "ST" and rng.random() < 0.6) else ""
                lines.append("sop ev %s b %d%s" % (ty, seq, ref))
            lines.append("sframe 1 16")
            for c in range(ncl):
                for _ in range(rng.choice([0, 1, 2])):          # the event channels run ahead of the update channel
                    lines += ["deliver %d s2c 2 all" % c, "deliver %d s2c 4 all" % c, "deliver %d s2c 6 all" % c, "cframe %d" % c]
                if rng.random() < 0.5:
                    lines += ["deliver %d s2c 0 %s" % (c, rng.choice(["all", "first"])), "cframe %d" % c, "deliver %d c2s 0 all" % c]
        meta = dict(connected=list(range(ncl)), events=True)
        sf = len(lines)
        out.append(("event-across-wrap-%d" % i, lines + gen_scripts.settle_lines(meta), sf))
    return out


def run(tier, seed, replay):
    kws = [dict(events=True, weights=dict(sev=4.0, edeliver=5.0, deliver=2.0)), dict(events=True, nclients=3, auth="custom"), dict(events=True, policy="black"), dict(events=True, weights=dict(sev=3.0, sop=6.0)), dict(events=True, sessions=True, weights=dict(session=0.7, sev=4.0, sframe=4.0))]
    return sim_check("C04", tier, seed, kws, n_quick=240, n_thorough=24000, oracle_props={"C04"}, known_ids=("D19", "D31"), custom_scripts=lambda rng, tier: mixed_tick_scripts(rng, tier) + greeting_scripts(rng, tier), impl_only_scripts=lambda rng, tier: mapped_trigger_scripts(rng, tier) + wrap_event_scripts(rng, tier),
                     impl_only_label="a server trigger with a mapped payload whose target the client cannot resolve; events overtaking update messages while the server tick crosses 2^32",
                     rule_extra=", server events of every kind (ordered, independent, mapped, unreliable, triggers with targets) emitted in arbitrary frames with event channels delayed independently of the update channel",
                     extra_assumptions=["'withheld' is read as 'not delivered': a ready event whose entity cannot be resolved on the client is dropped, not retried (C04_references_resolve_or_dropped)"],
                     model_name="RV.Repl.Sys + RV.Events.Remote")
