"""C08 - visibility: ClientVisibility state machine vs the per-entity (cur, prev) specification.
Layer 0 part; the Layer 1 part (no hidden entity's data in any message) is checked in the sim runs."""
import random
import sys
from common import *


def gen_tick_shaped(rng, wl):
    """Returns (kernel line, expected outputs list of (kind, value), description ops)."""
    d = not wl
    ents = list(range(1, rng.choice([2, 3, 4, 6]) + 1))
    cur = {e: d for e in ents}
    prev = {e: d for e in ents}
    pend = []
    ops, checks = [], []   # checks: list of ("eq", expected) | ("lost", must, may)
    for _ in range(rng.randrange(2, 30)):
        k = rng.random()
        if k < 0.55:
            e = rng.choice(ents)
            b = rng.random() < 0.5
            if rng.random() < 0.3:                      # repeated / cancelling calls
                ops.append("s:%x:%d" % (e, not b))
            ops.append("s:%x:%d" % (e, b))
            cur[e] = b
            if e not in pend:
                ops.append("v:%x" % e)
                checks.append(("eq", "1" if b else "0", "is_visible reports the most recent setting"))
        elif k < 0.7:
            e = rng.choice(ents)
            if e not in pend or rng.random() < 0.15:
                pend.append(e)                          # despawn / un-replicate: reaches the structure at the tick
        else:
            # tick: drain_lost; despawn buffer; classification; update
            ops.append("l")
            lost_must = {e for e in ents if prev[e] and not cur[e]}
            checks.append(("lost", lost_must, set(), "visibility-lost despawn records"))
            pending_set = set(pend)
            for e in pend:
                ops.append("v:%x" % e)
                # a despawn record is written iff visible; it MUST be written when the client has the entity (prev)
                # and it was not already covered by the lost records
                checks.append(("any" if not (prev[e] and cur[e] and pend.count(e) == 1) else "eq", "1", "despawned entity visible to the client gets a despawn record"))
                ops.append("d:%x" % e)
                cur[e] = d
                prev[e] = d
            for e in ents:
                ops.append("q:%x" % e)
                if e in pending_set:
                    checks.append(("any", None, ""))
                else:
                    want = 0 if not cur[e] else (2 if prev[e] else 1)
                    checks.append(("eq", "%d" % want, "state classification hidden/gained/visible"))
            ops.append("u")
            pend = []
            for e in ents:
                prev[e] = cur[e]
    return "vis %d %s" % (1 if wl else 0, ";".join(ops)), checks


def gen_raw(rng, wl):
    ops = []
    for _ in range(rng.randrange(1, 25)):
        e = rng.randrange(1, 4)
        ops.append(rng.choice(["s:%x:0" % e, "s:%x:1" % e, "s:%x:1" % e, "d:%x" % e, "l", "u", "q:%x" % e, "v:%x" % e]))
    return "vis %d %s" % (1 if wl else 0, ";".join(ops))


def run(tier, seed, replay):
    rep = Report("C08", tier, seed)
    rng = random.Random(seed)
    proofs_ok, ready = prepare(rep)
    if not ready:
        return rep.finish()
    n = 3000 if tier == "quick" else 80000
    lines, checks = [], []
    for l in read_corpus("C08"):
        lines.append(l)
        checks.append(None)
    for i in range(n):
        wl = rng.random() < 0.5
        if i % 3 == 2:
            lines.append(gen_raw(rng, wl))
            checks.append(None)
        else:
            l, c = gen_tick_shaped(rng, wl)
            lines.append(l)
            checks.append(c)
    impl, model = kernel_pair(lines)
    diverged, oracle_fail, nontriv = [], [], set()
    for l, a, b, cs in zip(lines, impl, model, checks):
        if a != b:
            diverged.append(dict(request=l, implementation=a, model=b))
        if a in ("PANIC", "<missing>"):
            oracle_fail.append(dict(request=l, implementation=a, why="visibility structure panicked"))
            continue
        if cs is None:
            continue
        outs = a.split(",") if a else []
        if len(outs) != len(cs):
            oracle_fail.append(dict(request=l, implementation=a, why="unexpected number of answers"))
            continue
        for o, c in zip(outs, cs):
            if c[0] == "eq" and o != c[1]:
                oracle_fail.append(dict(request=l, implementation=a, got=o, expected=c[1], why=c[2]))
                break
            if c[0] == "lost":
                got = set(int(x, 16) for x in o[2:-1].split()) if o.startswith("l[") else None
                if got is None or not (c[1] <= got):
                    oracle_fail.append(dict(request=l, implementation=a, got=o, must_contain=sorted(c[1]), why="an entity the client holds became hidden but no despawn record was produced"))
                    break
                if not (got <= c[1]):
                    oracle_fail.append(dict(request=l, implementation=a, got=o, expected=sorted(c[1]), why="visibility-lost record for an entity that is not (previously visible and now hidden)"))
                    break
        if l.count("u") >= 2:
            nontriv.add(l)
    rep.cov["evaluations"] = len(lines)
    rep.cov["traces_validated_against_impl"] = len(lines)
    rep.cov["distinct_nontrivial"] = len(nontriv)
    rep.cov["rule"] = ("both policies; tick-shaped histories over 2..6 entities: set_visibility calls (30% preceded by the opposite call), despawns reaching the structure at the tick "
                       "(drain_lost, then per buffered despawn is_visible + remove_despawned, then state of every entity, then update), expected answers from a per-entity "
                       "(current, previous, pending) python specification; plus raw call sequences in arbitrary order compared with the model only. non-trivial = distinct history with >= 2 ticks")
    rep.cov["input_distribution"] = dict(tick_shaped=sum(1 for c in checks if c), raw=sum(1 for c in checks if c is None), whitelist=sum(1 for l in lines if l.startswith("vis 1")))
    rep.cov["samples"] = [dict(request=l, implementation=a, model=b) for l, a, b in list(zip(lines, impl, model))[:3]]
    rep.assumptions = ["a marker removal resets the entity's setting when the tick processes it (remove_despawned); settings made between the removal and that tick are forgotten - documented as open finding D22 in DESIGN.md",
                       "hash set/map iteration order is irrelevant: drained sets are compared sorted"]
    # Layer 1: no message carries data of a hidden entity; the applied visibility is the most recent setting
    import simcheck
    rc, out = build_harness(["sim"])
    if rc != 0:
        rep.violation("harness-build", dict(what="sim harness does not build", log=out[-2000:]), False)
        return rep.finish()
    kws = [dict(policy="black"), dict(policy="white"), dict(policy="black", nclients=3, weights=dict(sop=7.0)), dict(policy="white", auth="custom")]

    def storms(rng, tier):
        """several clients lose / gain different entities in the same tick in which other entities are despawned or
        un-replicated: what one client loses must not leak into another client's message"""
        sys.path.insert(0, os.path.join(VERIF, "gen"))
        import scripts as gen_scripts
        out = []
        for i in range(40 if tier == "quick" else 1500):
            ncl = rng.choice([2, 3])
            pol = rng.choice(["black", "white"])
            lines = ["cfg policy=%s auth=none track=%d nclients=%d timeout=10000" % (pol, rng.randrange(2), ncl), "start", "sframe 0 10"]
            for c in range(ncl):
                lines.append("connect %d 1200" % c)
            nent = rng.randrange(3, 7)
            for e in range(1, nent + 1):
                lines.append("sop spawn %d 1 0=%d 1=%d" % (e, rng.randrange(50), rng.randrange(50)))
                if pol == "white":
                    for c in range(ncl):
                        if rng.random() < 0.8:
                            lines.append("sop vis %d %d 1" % (c, e))
            lines.append("sframe 1 16")
            for c in range(ncl):
                lines += ["deliver %d s2c 0 all" % c, "cframe %d" % c, "deliver %d c2s 0 all" % c]
            alive = set(range(1, nent + 1))
            for _ in range(rng.randrange(1, 4)):
                ents = list(alive)
                rng.shuffle(ents)
                for c in range(ncl):
                    for e in ents[:rng.randrange(0, 3)]:
                        lines.append("sop vis %d %d %d" % (c, e, rng.randrange(2)))
                    rng.shuffle(ents)
                for e in ents[:rng.choice([0, 1, 1, 2])]:
                    lines.append("sop despawn %d" % e)         # D22 class (visibility after a marker removal) is not entered: despawned entities are never touched again
                    alive.discard(e)
                for e in list(alive)[:rng.randrange(0, 3)]:
                    lines.append("sop mutate %d 0=%d" % (e, rng.randrange(50)))
                if rng.random() < 0.3:
                    lines.append("sframe 0 5")
                lines.append("sframe 1 16")
                if rng.random() < 0.5:
                    c = rng.randrange(ncl)
                    lines += ["deliver %d s2c 0 all" % c, "cframe %d" % c]
            meta = dict(connected=list(range(ncl)), events=False)
            sf = len(lines)
            lines += gen_scripts.settle_lines(meta)
            out.append(("storm-%d" % i, lines, sf))
        # an entity is hidden from a client while a mutate message for it is still unacknowledged; the acknowledgement reaches the
        # server after the tick that processed the hide; later the entity is shown again: it must arrive whole
        for i in range(30 if tier == "quick" else 1200):
            pol = rng.choice(["black", "white"])
            ncl = rng.choice([1, 2])
            lines = ["cfg policy=%s auth=none track=%d nclients=%d timeout=10000" % (pol, rng.randrange(2), ncl), "start", "sframe 0 10"]
            for c in range(ncl):
                lines.append("connect %d 1200" % c)
            for e in (1, 2):
                lines.append("sop spawn %d 1 0=%d 1=%d" % (e, rng.randrange(50), rng.randrange(50)))
                if pol == "white":
                    for c in range(ncl):
                        lines.append("sop vis %d %d 1" % (c, e))
            bare = rng.random() < 0.5
            if bare:
                lines.append("sop spawn 3 1")               # an entity without any replicated component
                if pol == "white":
                    for c in range(ncl):
                        lines.append("sop vis %d 3 1" % c)
            lines.append("sframe 1 16")
            for c in range(ncl):
                lines += ["deliver %d s2c 0 all" % c, "cframe %d" % c, "deliver %d c2s 0 all" % c]
            val = 100
            for _ in range(rng.randrange(1, 4)):
                e = rng.choice([1, 2])
                val += 1
                lines += ["sop mutate %d 0=%d" % (e, val), "sframe 1 16", "deliver 0 s2c 1 all", "cframe 0"]      # the ack is now on its way
                lines.append("sop vis 0 %d 0" % e)
                if rng.random() < 0.5:
                    val += 1
                    lines.append("sop mutate %d 1=%d" % (e, val))                                                   # changes while hidden
                lines.append("sframe 1 16")
                lines.append("deliver 0 c2s 0 all")                                                                 # ... and arrives after the hide
                for _ in range(rng.randrange(1, 3)):
                    lines.append("sframe 1 16")
                lines += ["sop vis 0 %d 1" % e, "sframe 1 16", "deliver 0 s2c 0 all", "deliver 0 s2c 1 all", "cframe 0", "deliver 0 c2s 0 all"]
            if bare:
                # the component-less entity is hidden for a tick or two and shown again: it must come back
                lines += ["sop vis 0 3 0", "sframe 1 16", "deliver 0 s2c 0 all", "cframe 0", "deliver 0 c2s 0 all"]
                if rng.random() < 0.5:
                    lines.append("sframe 1 16")
                lines += ["sop vis 0 3 1", "sframe 1 16", "deliver 0 s2c 0 all", "cframe 0", "deliver 0 c2s 0 all"]
            meta = dict(connected=list(range(ncl)), events=False)
            sf = len(lines)
            lines += gen_scripts.settle_lines(meta)
            out.append(("late-ack-then-show-%d" % i, lines, sf))
        return out
    o2, d2 = simcheck.sim_collect(rep, "C08", tier, rng, seed, kws, 160, 16000, oracle_props={"C08"}, known_ids=("D22",), custom_scripts=storms,
                                  rule_extra=", both visibility policies with repeated and cancelling set_visibility calls")
    if o2 and not oracle_fail:
        f = o2[0]
        rep.violation("oracle", dict(what="implementation violates C08 on a concrete script", problem=f["problem"], script=f.get("shrunk", f["script"])), True)
        return rep.finish()
    if d2 and not (oracle_fail or diverged):
        f = d2[0]
        rep.violation("correspondence", dict(what="Layer 1 model and implementation disagree", first_divergence=f.get("shrunk_divergence", f["divergence"]), script=f.get("shrunk", f["script"])), False)
        return rep.finish()
    return conclude(rep, proofs_ok, oracle_fail, diverged, "RV.Vis.Visibility")
