"""C13: running `local` scripts through the real app and the extracted model."""
from common import *
import simlib


def run_impl(lines):
    rc, out = sh([harness_bin("local")], input="\n".join(lines) + "\n", timeout=1800)
    return simlib.split_steps(out)


def annotate(lines, impl):
    """The number of fixed updates per frame is an oracle input for the model (Events::update gating)."""
    out = []
    for l, blk in zip(lines, impl):
        if l.startswith("emit sei ") or l.startswith("emit sti "):
            # independent events take the same local routes: the model has one buffer per direction and kind
            out.append(l.replace("emit sei ", "emit se ", 1).replace("emit sti ", "emit st ", 1))
        elif l.startswith("frame"):
            fx = [x for x in blk if x.startswith("fixed=")]
            out.append(l + " " + (fx[0] if fx else "fixed=0"))
        else:
            out.append(l)
    return out


def run_model(lines):
    rc, out = sh([os.path.join(OCAML, "driver"), "local"], input="\n".join(lines) + "\n", timeout=1800)
    return simlib.split_steps(out)


def run_both(lines):
    steps = [l for l in lines if l.split() and not l.startswith("#")]
    impl = run_impl(steps)
    model = run_model(annotate(steps, impl))
    # the implementation prints fixed=<n> lines, the model does not
    impl2 = [sorted(x.replace(" SEI:", " SE0:").replace(" STI:", " ST:") for x in b if not x.startswith("fixed=")) for b in impl]
    model = [sorted(b) for b in model]
    return steps, impl2, model
