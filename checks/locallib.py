"""C13: running `local` scripts through the real app and the extracted model."""
from common import *
import simlib


def run_impl(lines):
    rc, out = sh([harness_bin("local")], input="\n".join(lines) + "\n", timeout=1800)
    return simlib.split_steps(out)


def annotate(lines, impl):
    """The number of fixed updates per frame is an oracle input for the model (Events::update gating)."""
    out = []
    for l, blk in zip(lines, impl):
        if l.startswith("frame"):
            fx = [x for x in blk if x.startswith("fixed=")]
            out.append(l + " " + (fx[0] if fx else "fixed=0"))
        else:
            out.append(l)
    return out


def run_model(lines):
    rc, out = sh([os.path.join(OCAML, "driver"), "local"], input="\n".join(lines) + "\n", timeout=1800)
    return simlib.split_steps(out)


def run_both(lines):
    steps = [l for l in lines if l.split() and not l.startswith("#")]
    impl = run_impl(steps)
    model = run_model(annotate(steps, impl))
    # the implementation prints fixed=<n> lines, the model does not
    impl2 = [[x for x in b if not x.startswith("fixed=")] for b in impl]
    return steps, impl2, model
