"""C17 - example transport: framing round trip over a real loopback socket, conditioner FIFO."""
import random
from common import *


def hexb(bs):
    return "".join("%02x" % b for b in bs) or "-"


def gen_msgs(rng, k, maxlen, channels):
    out = []
    for i in range(k):
        ln = rng.choice([0, 1, 2, 3, 10, 100, 255, 256, 257, 1199, 1200]) if rng.random() < 0.4 else rng.randrange(0, maxlen + 1)
        ln = min(ln, maxlen)
        out.append((rng.choice(channels), [rng.getrandbits(8) for _ in range(ln)]))
    return out


def fmt(ms):
    return ",".join("%x:%s" % (c, hexb(p)) for c, p in ms) or "-"


def run(tier, seed, replay):
    rep = Report("C17", tier, seed)
    rng = random.Random(seed)
    proofs_ok, ready = prepare(rep)
    if not ready:
        return rep.finish()
    ncond = 600 if tier == "quick" else 6000
    ntcp = 150 if tier == "quick" else 1500
    lines, expect = [], []
    for l in read_corpus("C17"):
        lines.append(l)
        body = l.split(None, 1)[1]
        if l.startswith("cond"):
            expect.append(",".join(b for b in body.split("/") if b != "-") or "-")
        else:
            expect.append(body)
    for _ in range(ncond):
        nb = rng.choice([1, 1, 2, 3, 5])
        chans = rng.choice([[0], [0, 1], [0, 1, 2, 3], [7, 200, 255]])
        batches = [gen_msgs(rng, rng.choice([0, 1, 2, 3, 8, 17, 40, 64]), rng.choice([0, 4, 16]), chans) for _ in range(nb)]
        lines.append("cond " + "/".join(fmt(b) for b in batches))
        expect.append(fmt([m for b in batches for m in b]))
    for _ in range(ntcp):
        nr = rng.choice([1, 1, 2, 3])
        chans = rng.choice([[0], [0, 1], [0, 1, 2, 3], [7, 200, 255]])
        rounds = [gen_msgs(rng, rng.choice([0, 1, 2, 5, 12, 30, 48]), rng.choice([8, 64, 1200]), chans) for _ in range(nr)]
        lines.append("tcp " + "/".join(fmt(r) for r in rounds))
        expect.append("/".join(fmt(r) for r in rounds))
    # malformed stream: channel ids / sizes send_message must refuse
    for _ in range(20):
        r = [(rng.choice([256, 300, 70000]), [1, 2]), (1, [3])]
        lines.append("tcp " + fmt(r))
        expect.append(None)
    impl, model = kernel_pair(lines, shards=8)
    diverged, oracle_fail, nontriv = [], [], set()
    # long-lived connections (implementation only; the theorems cover every length for the model): per-channel order and
    # exactly-once must not depend on how many messages the connection has carried
    long_cases = [(70000, 1500), (66000, 7), (140000, 4000)] if tier == "quick" else [(70000, 1500), (66000, 7), (140000, 4000), (300000, 64), (200000, 1), (1000000, 2500)]
    long_lines = ["cond_long %d %d" % c for c in long_cases]
    for l, a in zip(long_lines, run_lines(harness_bin("kernels"), long_lines, shards=len(long_lines))):
        if not a.startswith("ok "):
            oracle_fail.append(dict(request=l, implementation=a, why="on a long-lived connection messages of one receiver frame were delivered out of sending order (or lost/duplicated)"))
    rep.cov["long_runs"] = long_cases
    # the whole backend: a real server app and 1-3 real client apps wired with RepliconExampleBackendPlugins over loopback TCP,
    # events piling up in both directions on an ordered and an unordered channel; one client may be sent a message too large
    # for the framing (its connection is dropped): the OTHER clients must still get everything exactly once and in order
    nback = 14 if tier == "quick" else 150
    back_lines, back_meta = [], []
    for _ in range(nback):
        ncl = rng.choice([1, 2, 2, 3])
        rounds, sent = [], []          # sent: (round, recipient, kind, seq)
        seq = 0
        dead = set()
        victim = rng.randrange(ncl) if (ncl > 1 and rng.random() < 0.4) else None
        nr = rng.randrange(2, 5)
        victim_round = rng.randrange(nr) if victim is not None else None
        burst_round = rng.randrange(nr)
        for r in range(nr):
            items = []                 # (text, recipients, kind, size)
            for _ in range(rng.choice([0, 1, 3, 6, 12, 30])):
                size = rng.choice([0, 1, 10, 100, 700, 1100])
                k = rng.randrange(2)
                d = rng.random()
                if d < 0.35:
                    items.append(("b:%d:%d" % (k, size), ["R%d" % c for c in range(ncl)], k, size))
                elif d < 0.65:
                    c = rng.randrange(ncl)
                    items.append(("s%d:%d:%d" % (c, k, size), ["R%d" % c], k, size))
                else:
                    c = rng.randrange(ncl)
                    k = rng.randrange(5)          # five client event channels against two server event channels (kinds 0, 2, 4 ordered)
                    items.append(("c%d:%d:%d" % (c, k, size), ["RS:%d" % c], k, size))
            if ncl > 1 and r == burst_round:
                # dozens of server -> client messages for SEVERAL clients interleaved in one server frame
                for _ in range(rng.choice([24, 40, 64])):
                    size = rng.choice([0, 1, 10, 100])
                    k = rng.choice([0, 0, 1])
                    if rng.random() < 0.5:
                        items.append(("b:%d:%d" % (k, size), ["R%d" % c for c in range(ncl)], k, size))
                    else:
                        c = rng.randrange(ncl)
                        items.append(("s%d:%d:%d" % (c, k, size), ["R%d" % c], k, size))
            if r == victim_round:
                items.insert(rng.randrange(len(items) + 1), ("s%d:0:70000" % victim, ["R%d" % victim], 0, 70000))     # does not fit the 16-bit length prefix
            for text, recs, k, size in items:      # the harness numbers the items in script order
                seq += 1
                for rec in recs:
                    sent.append((r, rec, k, seq, size))
            items = [it[0] for it in items]
            rounds.append(",".join(items) or "-")
        rounds += ["-", "-", "-", "-"]
        back_lines.append("backend %d %s" % (ncl, "/".join(rounds)))
        back_meta.append((ncl, sent, victim, victim_round))
    back_out = run_lines(harness_bin("kernels"), back_lines, shards=min(8, len(back_lines)))
    for l, o, (ncl, sent, victim, vround) in zip(back_lines, back_out, back_meta):
        if o in ("setup-failed", "PANIC") or not o:
            oracle_fail.append(dict(request=l[:600], implementation=o, why="the example backend did not come up or panicked"))
            continue
        got = {}
        for r, part in enumerate(o.split("/")):
            for rec in part.split(";"):
                name, items = rec.split("=")
                if items == "-":
                    continue
                for it in items.split(","):
                    if name == "RS":
                        who, it = it.split(":")
                        key = "RS:" + who
                    elif it.startswith("L:"):
                        continue          # a client whose connection was dropped acts as singleplayer: its own events come back locally (C13's business)
                    else:
                        key = name
                    k, sq, size, okf = it.split(".")
                    got.setdefault(key, []).append((int(k), int(sq), int(size), okf == "1"))
        for key in sorted(set([x[1] for x in sent]) | set(got)):
            # a client whose connection was dropped by an oversized message (and what it sends) is outside the promise
            if victim is not None and key in ("R%d" % victim, "RS:%d" % victim):
                continue
            want = [(k, sq, size) for (r, rec, k, sq, size) in sent if rec == key]
            have = got.get(key, [])
            if any(not okf for (_, _, _, okf) in have):
                oracle_fail.append(dict(request=l[:600], implementation=o[:600], why="a payload arrived altered at %s" % key))
                break
            if sorted((k, sq, size) for (k, sq, size, _) in have) != sorted(want):
                oracle_fail.append(dict(request=l[:600], implementation=o[:600], why="recipient %s: messages lost or duplicated (sent %d, arrived %d)" % (key, len(want), len(have))))
                break
            bad_order = False
            for ok_ in (0, 2, 4):
                ordered = [sq for (k, sq, _, _) in have if k == ok_]
                if ordered != sorted(ordered):
                    oracle_fail.append(dict(request=l[:600], implementation=o[:600], why="recipient %s: ordered channel %d out of sending order %r" % (key, ok_, ordered[:20])))
                    bad_order = True
                    break
            if bad_order:
                break
    rep.cov["backend_runs"] = dict(cases=nback, rule="real server + 1-3 client apps over loopback TCP through the backend plugins, up to 30 events per frame and direction, one oversized message to one client in some cases")
    # messages waiting in the socket before the receiver's FIRST frame (the server is several frames ahead of a new client)
    import backendx
    nlate = 12 if tier == "quick" else 200
    late = [backendx.gen_late(rng) for _ in range(nlate)]
    late_lines = ["backendx " + "/".join(st) for st, _ in late]
    for l, o, (_, sent) in zip(late_lines, run_lines(harness_bin("kernels"), late_lines, shards=min(8, len(late_lines))), late):
        why = backendx.judge_late(o, sent)
        if why:
            oracle_fail.append(dict(request=l[:600], implementation=o[:600], why=why))
    rep.cov["backend_late_first_frame"] = dict(cases=nlate, rule="1-3 server frames with up to 21 broadcasts each before the first frame of a freshly connected client app, then several server frames between two client frames")
    nleave = 12 if tier == "quick" else 200
    leave = [backendx.gen_leave(rng) for _ in range(nleave)]
    leave_lines = ["backendx " + "/".join(st) for st, _ in leave]
    for l, o, (_, sent) in zip(leave_lines, run_lines(harness_bin("kernels"), leave_lines, shards=min(8, len(leave_lines))), leave):
        why = backendx.judge_leave(o, sent)
        if why:
            oracle_fail.append(dict(request=l[:600], implementation=o[:600], why=why))
    rep.cov["backend_one_client_leaves"] = dict(cases=nleave, rule="two clients over the real backend; one drops its socket in the server frame in which the other one's messages (five channels) are read")
    extra_evals = nback + nlate + nleave
    for l, a, b, e in zip(lines, impl, model, expect):
        if a != b:
            diverged.append(dict(request=l[:300], implementation=a[:300], model=b[:300]))
        if e is not None and a != e:
            oracle_fail.append(dict(request=l[:2000], implementation=a[:2000], why="messages were lost, duplicated, reordered or altered between sender and receiver"))
        if l.count(",") >= 8:
            nontriv.add(l)
    rep.cov["evaluations"] = len(lines) + extra_evals
    rep.cov["traces_validated_against_impl"] = len(lines)
    rep.cov["distinct_nontrivial"] = len(nontriv)
    rep.cov["rule"] = ("conditioner without config: 1..5 receiver frames, 0..64 messages inserted per frame with one timestamp, then drained; tcp: 1..3 rounds of 0..48 messages "
                       "of 0..1200 bytes on up to 4 channels written with tcp::send_message to a real loopback socket pair and read with tcp::read_message until WouldBlock; "
                       "expected = exactly the input sequence. non-trivial = distinct case with >= 9 messages")
    rep.cov["input_distribution"] = dict(cond=ncond, tcp=ntcp, refused=20, corpus=len(lines) - ncond - ntcp - 20)
    rep.cov["samples"] = [dict(request=l[:200], implementation=a[:200], model=b[:200]) for l, a, b in list(zip(lines, impl, model))[:2] + list(zip(lines, impl, model))[-22:-20]]
    rep.assumptions = ["kernel TCP on loopback delivers the byte stream in order; a frame arrives whole before the receiver reads it (message sizes far below socket buffers)",
                       "std::collections::BinaryHeap pops a greatest element w.r.t. Ord; with (timestamp, sequence) keys that determines the order",
                       "partial: OS socket behaviour is exercised on loopback, not proved"]
    return conclude(rep, proofs_ok, oracle_fail, diverged, "RV.Backend.{Framing,Conditioner}")
