"""C17 - example transport: framing round trip over a real loopback socket, conditioner FIFO."""
import random
from common import *


def hexb(bs):
    return "".join("%02x" % b for b in bs) or "-"


def gen_msgs(rng, k, maxlen, channels):
    out = []
    for i in range(k):
        ln = rng.choice([0, 1, 2, 3, 10, 100, 255, 256, 257, 1199, 1200]) if rng.random() < 0.4 else rng.randrange(0, maxlen + 1)
        ln = min(ln, maxlen)
        out.append((rng.choice(channels), [rng.getrandbits(8) for _ in range(ln)]))
    return out


def fmt(ms):
    return ",".join("%x:%s" % (c, hexb(p)) for c, p in ms) or "-"


def run(tier, seed, replay):
    rep = Report("C17", tier, seed)
    rng = random.Random(seed)
    proofs_ok, ready = prepare(rep)
    if not ready:
        return rep.finish()
    ncond = 600 if tier == "quick" else 6000
    ntcp = 150 if tier == "quick" else 1500
    lines, expect = [], []
    for l in read_corpus("C17"):
        lines.append(l)
        body = l.split(None, 1)[1]
        if l.startswith("cond"):
            expect.append(",".join(b for b in body.split("/") if b != "-") or "-")
        else:
            expect.append(body)
    for _ in range(ncond):
        nb = rng.choice([1, 1, 2, 3, 5])
        chans = rng.choice([[0], [0, 1], [0, 1, 2, 3], [7, 200, 255]])
        batches = [gen_msgs(rng, rng.choice([0, 1, 2, 3, 8, 17, 40, 64]), rng.choice([0, 4, 16]), chans) for _ in range(nb)]
        lines.append("cond " + "/".join(fmt(b) for b in batches))
        expect.append(fmt([m for b in batches for m in b]))
    for _ in range(ntcp):
        nr = rng.choice([1, 1, 2, 3])
        chans = rng.choice([[0], [0, 1], [0, 1, 2, 3], [7, 200, 255]])
        rounds = [gen_msgs(rng, rng.choice([0, 1, 2, 5, 12, 30, 48]), rng.choice([8, 64, 1200]), chans) for _ in range(nr)]
        lines.append("tcp " + "/".join(fmt(r) for r in rounds))
        expect.append("/".join(fmt(r) for r in rounds))
    # malformed stream: channel ids / sizes send_message must refuse
    for _ in range(20):
        r = [(rng.choice([256, 300, 70000]), [1, 2]), (1, [3])]
        lines.append("tcp " + fmt(r))
        expect.append(None)
    impl, model = kernel_pair(lines, shards=8)
    diverged, oracle_fail, nontriv = [], [], set()
    # long-lived connections (implementation only; the theorems cover every length for the model): per-channel order and
    # exactly-once must not depend on how many messages the connection has carried
    long_cases = [(70000, 1500), (66000, 7), (140000, 4000)] if tier == "quick" else [(70000, 1500), (66000, 7), (140000, 4000), (300000, 64), (200000, 1), (1000000, 2500)]
    long_lines = ["cond_long %d %d" % c for c in long_cases]
    for l, a in zip(long_lines, run_lines(harness_bin("kernels"), long_lines, shards=len(long_lines))):
        if not a.startswith("ok "):
            oracle_fail.append(dict(request=l, implementation=a, why="on a long-lived connection messages of one receiver frame were delivered out of sending order (or lost/duplicated)"))
    rep.cov["long_runs"] = long_cases
    for l, a, b, e in zip(lines, impl, model, expect):
        if a != b:
            diverged.append(dict(request=l[:300], implementation=a[:300], model=b[:300]))
        if e is not None and a != e:
            oracle_fail.append(dict(request=l[:2000], implementation=a[:2000], why="messages were lost, duplicated, reordered or altered between sender and receiver"))
        if l.count(",") >= 8:
            nontriv.add(l)
    rep.cov["evaluations"] = len(lines)
    rep.cov["traces_validated_against_impl"] = len(lines)
    rep.cov["distinct_nontrivial"] = len(nontriv)
    rep.cov["rule"] = ("conditioner without config: 1..5 receiver frames, 0..64 messages inserted per frame with one timestamp, then drained; tcp: 1..3 rounds of 0..48 messages "
                       "of 0..1200 bytes on up to 4 channels written with tcp::send_message to a real loopback socket pair and read with tcp::read_message until WouldBlock; "
                       "expected = exactly the input sequence. non-trivial = distinct case with >= 9 messages")
    rep.cov["input_distribution"] = dict(cond=ncond, tcp=ntcp, refused=20, corpus=len(lines) - ncond - ntcp - 20)
    rep.cov["samples"] = [dict(request=l[:200], implementation=a[:200], model=b[:200]) for l, a, b in list(zip(lines, impl, model))[:2] + list(zip(lines, impl, model))[-22:-20]]
    rep.assumptions = ["kernel TCP on loopback delivers the byte stream in order; a frame arrives whole before the receiver reads it (message sizes far below socket buffers)",
                       "std::collections::BinaryHeap pops a greatest element w.r.t. Ord; with (timestamp, sequence) keys that determines the order",
                       "partial: OS socket behaviour is exercised on loopback, not proved"]
    return conclude(rep, proofs_ok, oracle_fail, diverged, "RV.Backend.{Framing,Conditioner}")
