"""C18 - scene export: exactly the replicated state, no component twice."""
import random
from common import *

BUNDLES = [(0, 1), (1, 0), (0, 2), (1, 2), (2, 3), (0, 3), (0, 1, 2), (1, 2, 3)]
REFLECTABLE = {0, 1, 2, 3}


def comps(cs):
    return "+".join("%d=%d" % kv for kv in cs)


def gen_refresh_case(rng):
    """a scene produced earlier is refreshed: the entity is already in the scene with few components, and rules selecting
    components that cannot be exported (no reflect(Component) / unregistered) come before the ones that can"""
    bad = rng.sample([4, 5], rng.randint(1, 2))
    good = rng.sample([0, 1, 2, 3], rng.randint(1, 3))
    rules = [(k,) for k in bad] + [(k,) for k in good]
    if rng.random() < 0.3:
        rng.shuffle(rules)
    prios = [None] * len(rules)
    world = [(1, True, [(k, rng.randint(0, 50)) for k in bad + good])]
    if rng.random() < 0.5:
        world.append((2, True, [(k, rng.randint(0, 50)) for k in good]))
    scene = [(1, [(k, rng.randint(100, 150)) for k in rng.sample(good, rng.randint(1, len(good)))])]
    return rules, world, scene, prios


def gen_case(rng):
    if rng.random() < 0.15:
        return gen_refresh_case(rng)
    rules, prios = [], []
    for _ in range(rng.randint(0, 5)):
        g = (rng.randint(0, 5),) if rng.random() < 0.5 else rng.choice(BUNDLES)
        rules.append(g)
        prios.append(rng.choice([0, 1, 2, 3, 5, 8, 16, 100]) if rng.random() < 0.25 else None)      # an explicit priority (unrelated to the number of components)
    world = []
    for i in range(rng.randint(0, 4)):
        ks = rng.sample(range(6), rng.randint(0, 5))
        world.append((i + 1, rng.random() < 0.75, [(k, rng.randint(0, 50)) for k in ks]))
    scene = []
    for i in rng.sample(range(1, 7), rng.randint(0, 3)):
        ks = rng.sample(range(6), rng.randint(0, 3)) if rng.random() < 0.85 else [rng.randint(0, 5) for _ in range(rng.randint(0, 4))]
        scene.append((i, [(k, rng.randint(100, 150)) for k in ks]))
    return rules, world, scene, prios


def line_of(case):
    rules, world, scene, prios = case
    r = ";".join("+".join(map(str, g)) + ("@%d" % p if p is not None else "") for g, p in zip(rules, prios)) or "-"
    w = ";".join("%d:%d:%s" % (i, int(m), comps(cs)) for i, m, cs in world) or "-"
    s = ";".join("%d:%s" % (i, comps(cs)) for i, cs in scene) or "-"
    return "scene %s %s %s" % (r, w, s)


def parse_answer(a):
    body, rt = a.rsplit(" rt=", 1)
    ents = {}
    order = []
    if body != "-":
        for ent in body.split(";"):
            i, cs = ent.split(":")
            ents.setdefault(int(i), [])
            order.append(int(i))
            ents[int(i)] = [tuple(map(int, kv.split("="))) for kv in cs.split("+")] if cs else []
    return ents, order, rt


def oracle(case, a):
    rules, world, scene = case[:3]
    if a in ("PANIC", "<missing>") or a.startswith("BAD") or a.startswith("UNSUPPORTED"):
        return "export failed: %s" % a
    if "!stale-list" in a:
        return "a component in the scene carries a list that does not belong to its current value (a stale copy was merged, not replaced): %s" % a
    ents, order, rt = parse_answer(a)
    if len(order) != len(set(order)):
        return "an entity occurs twice in the scene"
    scene0 = dict(scene)
    marked = {i: dict(cs) for i, m, cs in world if m}
    expected_ids = set(scene0) | set(marked)
    if set(ents) != expected_ids:
        return "scene entities %r differ from marked entities + entities already in the scene %r" % (sorted(ents), sorted(expected_ids))
    for i in expected_ids:
        got = ents[i]
        old = scene0.get(i, [])
        if i not in marked:
            if got != old:
                return "an unmarked scene entity was modified"
            continue
        have = marked[i]
        selected = set()
        for g in rules:
            if all(k in have for k in g):
                selected |= set(g)
        selected &= REFLECTABLE
        new = [(k, v) for k, v in got if k in selected]
        if sorted(k for k, _ in new) != sorted(selected):
            return "entity %d: exported kinds %r, rules select %r (each exactly once)" % (i, sorted(k for k, _ in new), sorted(selected))
        if any(have[k] != v for k, v in new):
            return "entity %d: exported value is not the current value" % i
        rest = [(k, v) for k, v in got if k not in selected]
        if rest != [(k, v) for k, v in old if k not in selected]:
            return "entity %d: components that are not exported changed (or unselected/marker components were added)" % i
    nodup_in = all(len(set(k for k, _ in cs)) == len(cs) for cs in scene0.values())
    no_k5 = all(k != 5 for cs in scene0.values() for k, _ in cs)
    if nodup_in and no_k5 and rt != "ok":
        return "the exported scene cannot be serialized and read back"
    return None


def run(tier, seed, replay):
    rep = Report("C18", tier, seed)
    rng = random.Random(seed)
    proofs_ok, ready = prepare(rep)
    if not ready:
        return rep.finish()
    n = 500 if tier == "quick" else 6000
    corpus = read_corpus("C18")
    cases = [gen_case(rng) for _ in range(n)]
    lines = corpus + [line_of(c) for c in cases]
    # a third of the generated cases: the scene's own copies are dynamic reflect values (hand-assembled / reflectively cloned
    # scenes); for the model a copy is a copy, so it gets the plain request
    impl_lines = corpus + [l + (" dyn" if j % 3 == 1 else "") for j, l in enumerate(lines[len(corpus):])]
    impl = run_lines(harness_bin("kernels"), impl_lines, shards=12)
    model = run_lines(os.path.join(OCAML, "driver"), lines, shards=12)
    impl += ["<missing>"] * (len(lines) - len(impl))
    model += ["<missing>"] * (len(lines) - len(model))
    lines = impl_lines
    diverged, oracle_fail, nontriv = [], [], set()
    for l, a, b in zip(lines, impl, model):
        if a != b:
            diverged.append(dict(request=l, implementation=a, model=b))
    for c, l, a in zip(cases, lines[len(corpus):], impl[len(corpus):]):
        why = oracle(c, a)
        if why:
            oracle_fail.append(dict(request=l, implementation=a, why=why))
        if len(c[0]) >= 2 and any(m and len(cs) >= 2 for _, m, cs in c[1]):
            nontriv.add(l)
    rep.cov["evaluations"] = len(lines)
    rep.cov["traces_validated_against_impl"] = len(lines)
    rep.cov["distinct_nontrivial"] = len(nontriv)
    rep.cov["rule"] = ("real Bevy apps with 0..5 rules (single-component and bundle rules over K0..K3 reflected+registered, K4 without reflect(Component), K5 unregistered), worlds of 0..4 entities "
                       "(75% marked) with 0..5 components, scenes already holding 0..3 entities with 0..4 components (15% with repeated kinds); scene::replicate_into, then a RON round trip. "
                       "Expected result computed in python from the property text (rule matching by set inclusion). non-trivial = distinct case with >= 2 rules and a marked entity with >= 2 components")
    rep.cov["input_distribution"] = dict(cases=n, corpus=len(corpus), overlapping_rules=sum(1 for c in cases if len(set(k for g in c[0] for k in g)) < sum(len(g) for g in c[0])),
                                         scenes_nonempty=sum(1 for c in cases if c[2]))
    rep.cov["samples"] = [dict(request=l, implementation=a, model=b) for l, a, b in list(zip(lines, impl, model))[:3]]
    rep.assumptions = ["Bevy reflection (ReflectComponent, FromReflect, scene serialization) is exercised, not modelled",
                       "a rule registered for the Replicated marker itself would export the marker (documented observation, outside the generator)"]
    return conclude(rep, proofs_ok, oracle_fail, diverged, "RV.Rules.{Rules,Scene}")
